(* C05: CPD tables keep their column meaning; validated models are normalised.
   ONLY the property theorems, each followed by Print Assumptions.  Model: C05/Model.v (pgmpy's code),
   meaning: C05/Spec.v.  All statements are for every number of parents and all cardinalities. *)
From Coq Require Import List Arith ZArith Lia PeanoNat Bool QArith Qcanon Permutation.
From PV Require Import Base.Ravel Base.Semiring Base.FinSum Base.RefFactor Base.Graph
  C05.Model C05.Spec C05.ProofsTable C05.ProofsReorder C05.ProofsValid C05.ProofsMarg C05.ProofsBN C05.Store.
Import ListNotations.
Local Open Scope nat_scope.
Local Notation R := Qc_sum_csr.

(* 1. A CPD built from a 2-D array: entry (i, j) is the value at child state i and the parent
      configuration unravel(evidence_card, j) - row-major in the DECLARED evidence order -, get_values
      gives the same 2-D table back, and read by NAMES the entry is P(child = name_i | parents = names of
      configuration j). *)
Theorem C05_column_is_rowmajor_config :
  forall v card rows ev ecard sn c,
    mk_cpd v card rows ev ecard sn = inr c ->
    variables c = v :: ev /\ cardinality c = card :: ecard /\
    get_values c = rows /\
    (forall i j, i < card -> j < prod ecard ->
       at_config (Q2Qc 0) c i (config_of_column ecard j) = entry2 (Q2Qc 0) rows i j) /\
    (forall i j, i < ccard c -> j < prod (pcards c) ->
       entry2 (Q2Qc 0) (get_values c) i j = at_config (Q2Qc 0) c i (config_of_column (pcards c) j)) /\
    (wf_cpd c -> forall nu i j, i < card -> j < prod ecard ->
       names_at (snames c) (variables c) nu (i :: config_of_column ecard j) ->
       P_named c nu = Some (entry2 (Q2Qc 0) rows i j)).
Proof.
  intros v card rows ev ecard sn c H.
  destruct (ctor_column_meaning v card rows ev ecard sn c H) as [H1 [H2 [H3 H4]]].
  split; [exact H1|]. split; [exact H2|]. split; [exact H3|]. split; [exact H4|]. split.
  - intros i j Hi Hj. apply get_values_entry; assumption.
  - intros W nu i j Hi Hj Hn. apply (positions_names_at c nu _ W) in Hn. unfold P_named. rewrite Hn.
    f_equal. apply H4; assumption.
Qed.
Print Assumptions C05_column_is_rowmajor_config.

(* 2. For every permutation of the parents, in place and out of place: the call succeeds, every named
      assignment keeps its probability, every variable keeps its state names (the object's whole
      state-name dictionary is unchanged), the returned 2-D array is get_values of the reordered CPD
      in both modes, and out of place the object itself is unchanged. *)
Theorem C05_reorder_preserves_P :
  forall c o, wf_cpd c -> pars c <> [] -> Permutation o (pars c) ->
  exists ci,
    reorder_parents c o true = inr (ci, get_values ci) /\
    reorder_parents c o false = inr (c, get_values ci) /\
    child ci = child c /\ ccard ci = ccard c /\ pars ci = o /\ snames ci = snames c /\
    wf_cpd ci /\
    forall nu, P_named ci nu = P_named c nu.
Proof. exact reorder_ok. Qed.
Print Assumptions C05_reorder_preserves_P.

(* 3. marginalize(X) = normalize(c1) where c1 is the CPD over the remaining parents whose entry at every
      state assignment is the SUM of the original entries over all states of the parents in X; the
      remaining variables keep their state names; normalisation divides every entry by its column sum
      (non-finite when that sum is zero). *)
Theorem C05_marginalize_is_normalised_sum :
  forall c X, wf_cpd c -> NoDup X -> incl X (pars c) ->
  exists c1 : cpd,
    marginalize c X = inr (normalize c1) /\
    child c1 = child c /\ ccard c1 = ccard c /\ pars c1 = vminus (pars c) X /\
    pcards c1 = map (cardf c) (pars c1) /\
    (forall v, ~ In v X -> sn_get (snames (normalize c1)) v = sn_get (snames c) v) /\
    (forall a, valid (cardf c) a ->
       entry_at (Q2Qc 0) c1 a =
         sum_over (R := R) (vinter (variables c) X) (map (cardf c) (vinter (variables c) X))
                  (entry_at (Q2Qc 0) c) a) /\
    (forall i j, i < ccard c1 -> j < prod (pcards c1) ->
       nth (i * prod (pcards c1) + j) (vals (normalize c1)) None =
         qdiv (nth (i * prod (pcards c1) + j) (vals c1) (Q2Qc 0)) (colsum c1 j)).
Proof.
  intros c X W HX Hi. destruct (marginalize_ok c X W HX Hi) as [c1 [H1 [H2 [H3 [H4 [H5 [H6 [H7 H8]]]]]]]].
  exists c1. repeat split; try assumption.
  intros i j Hi' Hj. apply normalize_entry; assumption.
Qed.
Print Assumptions C05_marginalize_is_normalised_sum.

(* 4. reduce(values by state NAME) = normalize(c1) where c1 is the slice of the table at the positions of
      those names. *)
Theorem C05_reduce_is_slice :
  forall c values nos, wf_cpd c -> NoDup (map fst values) -> incl (map fst values) (pars c) ->
  otraverse (fun p => name_no (snames c) (fst p) (snd p)) values = Some nos ->
  exists c1 : cpd,
    reduce c values = inr (normalize c1) /\
    child c1 = child c /\ ccard c1 = ccard c /\ pars c1 = vminus (pars c) (map fst values) /\
    pcards c1 = map (cardf c) (pars c1) /\
    (forall v, ~ In v (map fst values) -> sn_get (snames (normalize c1)) v = sn_get (snames c) v) /\
    (forall a, valid (cardf c) a ->
       entry_at (Q2Qc 0) c1 a = entry_at (Q2Qc 0) c (upds a (combine (map fst values) nos))) /\
    (forall i j, i < ccard c1 -> j < prod (pcards c1) ->
       nth (i * prod (pcards c1) + j) (vals (normalize c1)) None =
         qdiv (nth (i * prod (pcards c1) + j) (vals c1) (Q2Qc 0)) (colsum c1 j)).
Proof.
  intros c values nos W HX Hi Hn.
  destruct (reduce_ok c values nos W HX Hi Hn) as [c1 [H1 [H2 [H3 [H4 [H5 [H6 [H7 H8]]]]]]]].
  exists c1. repeat split; try assumption.
  intros i j Hi' Hj. apply normalize_entry; assumption.
Qed.
Print Assumptions C05_reduce_is_slice.

(* 5. normalize keeps scope, cardinalities and state names; a column whose sum is not zero is divided by
      that sum and then sums to one; a column whose sum is zero becomes non-finite in every row (the code
      divides by zero: numpy gives nan for 0/0 and +-inf for x/0). *)
Local Open Scope Qc_scope.
Theorem C05_normalize_columns :
  forall c j, wf_cpd c -> (j < prod (pcards c))%nat ->
  (child (normalize c) = child c /\ ccard (normalize c) = ccard c /\ pars (normalize c) = pars c /\
   pcards (normalize c) = pcards c /\ snames (normalize c) = snames c) /\
  (colsum c j <> 0 ->
     (forall i, (i < ccard c)%nat ->
        nth (i * prod (pcards c) + j) (vals (normalize c)) None =
          Some (nth (i * prod (pcards c) + j) (vals c) 0 / colsum c j)) /\
     qsum (map (fun i => nth (i * prod (pcards c) + j)%nat (vals c) 0 / colsum c j) (seq 0 (ccard c))) = 1) /\
  (colsum c j = 0 ->
     forall i, (i < ccard c)%nat -> nth (i * prod (pcards c) + j) (vals (normalize c)) None = None).
Proof.
  intros c j W Hj. split; [apply normalize_shape|].
  apply normalize_columns; [|exact Hj]. pose proof (wf_vals c W) as H. unfold cardinality in H.
  rewrite prod_cons in H. exact H.
Qed.
Print Assumptions C05_normalize_columns.
Local Close Scope Qc_scope.

(* 6. copy() returns an equal CPD (same scope, table, state names); to_factor() has the same scope, the
      same flat table and the same state names, and evaluates to the CPD's entry at every assignment. *)
Theorem C05_copy_tofactor_same :
  forall c, wf_cpd c ->
    copy c = inr c /\
    fvars (fst (to_factor c)) = variables c /\ fvals (fst (to_factor c)) = vals c /\
    snd (to_factor c) = snames c /\
    forall a, feval R (cardf c) (fst (to_factor c)) a = entry_at (Q2Qc 0) c a.
Proof.
  intros c W. split; [apply copy_same; exact W|]. repeat split.
  intros a. apply feval_cfac. exact W.
Qed.
Print Assumptions C05_copy_tofactor_same.

(* 7. is_valid_cpd accepts exactly when every column sum s satisfies |s - 1| <= 0.01 + 1e-5
      (np.allclose with atol = 0.01 and the default rtol = 1e-5 against ones). *)
Theorem C05_valid_iff :
  forall c, wf_cpd c ->
    (is_valid_cpd c = true <-> forall j, j < prod (pcards c) -> within_tol (colsum c j)).
Proof. exact valid_iff. Qed.
Print Assumptions C05_valid_iff.

(* 8. A network accepted by check_model: every node has a CPD for itself whose parents are the graph
      parents (as sets), which has state names for all its variables, all of whose columns are within the
      tolerance, and for each parent the declared cardinality and the state names equal those of the
      parent's own CPD. *)
Theorem C05_check_model_sound :
  forall b, Forall wf_cpd (bcpds b) -> check_model b = CM_ok ->
  forall v, In v (nodes (bg b)) ->
  exists c, get_cpd b v = Some c /\ In c (bcpds b) /\ child c = v /\
    same_set (pars c) (parents (bg b) v) /\
    (forall u, In u (variables c) -> sn_has (snames c) u = true) /\
    (forall j, j < prod (pcards c) -> within_tol (colsum c j)) /\
    forall u k, In (u, k) (combine (pars c) (pcards c)) ->
      exists pc, get_cpd b u = Some pc /\ child pc = u /\ ccard pc = k /\
                 exists s, sn_get (snames pc) u = Some s /\ sn_get (snames c) u = Some s.
Proof.
  intros b Hwf H v Hv. pose proof (proj1 (check_model_iff b) H) as H'; clear H; rename H' into H. destruct (H v Hv) as [c [Hg [Hs [Hn [Hval Hp]]]]].
  destruct (get_cpd_Some b v c Hg) as [Hin Hc].
  exists c. split; [exact Hg|]. split; [exact Hin|]. split; [exact Hc|]. split; [exact Hs|].
  split; [exact Hn|]. split.
  - rewrite Forall_forall in Hwf. apply (valid_iff c (Hwf c Hin)). exact Hval.
  - intros u k Huk. destruct (Hp u k Huk) as [pc [H1 [H2 H3]]]. exists pc.
    destruct (get_cpd_Some b u pc H1) as [_ Hcu]. auto.
Qed.
Print Assumptions C05_check_model_sound.

(* 9. Each single-fault class is rejected: a node without CPD; a CPD whose parent set differs from the
      graph's; a column sum further than the tolerance from one; a declared parent cardinality different
      from the parent's own; parent state names different from the parent's own. *)
Theorem C05_check_model_complete_single_fault :
  forall b v, In v (nodes (bg b)) ->
    (get_cpd b v = None -> check_model b <> CM_ok) /\
    (forall c, get_cpd b v = Some c ->
       (~ same_set (pars c) (parents (bg b) v) -> check_model b <> CM_ok) /\
       (wf_cpd c -> forall j, j < prod (pcards c) -> ~ within_tol (colsum c j) -> check_model b <> CM_ok) /\
       (forall u k pc, In (u, k) (combine (pars c) (pcards c)) -> get_cpd b u = Some pc ->
          (ccard pc <> k -> check_model b <> CM_ok) /\
          (sn_get (snames pc) u <> sn_get (snames c) u -> check_model b <> CM_ok))).
Proof.
  intros b v Hv. split.
  - intros Hn H. pose proof (proj1 (check_model_iff b) H) as H'; clear H; rename H' into H. destruct (H v Hv) as [c [Hg _]]. congruence.
  - intros c Hg. split; [|split].
    + intros Hs H. pose proof (proj1 (check_model_iff b) H) as H'; clear H; rename H' into H. destruct (H v Hv) as [c' [Hg' [Hs' _]]].
      rewrite Hg in Hg'. inversion Hg'; subst c'. contradiction.
    + intros W j Hj Hbad H. pose proof (proj1 (check_model_iff b) H) as H'; clear H; rename H' into H. destruct (H v Hv) as [c' [Hg' [_ [_ [Hval _]]]]].
      rewrite Hg in Hg'. inversion Hg'; subst c'. apply Hbad. apply (valid_iff c W); assumption.
    + intros u k pc Huk Hpc. split.
      * intros Hne H. pose proof (proj1 (check_model_iff b) H) as H'; clear H; rename H' into H. destruct (H v Hv) as [c' [Hg' [_ [_ [_ Hp]]]]].
        rewrite Hg in Hg'. inversion Hg'; subst c'. destruct (Hp u k Huk) as [pc' [H1 [H2 _]]]. congruence.
      * intros Hne H. pose proof (proj1 (check_model_iff b) H) as H'; clear H; rename H' into H. destruct (H v Hv) as [c' [Hg' [_ [_ [_ Hp]]]]].
        rewrite Hg in Hg'. inversion Hg'; subst c'. destruct (Hp u k Huk) as [pc' [H1 [_ [s [H3 H4]]]]].
        rewrite Hpc in H1. inversion H1; subst pc'. congruence.
Qed.
Print Assumptions C05_check_model_complete_single_fault.

(* both verdicts occur: a two-node network A -> B that is accepted, and the same with a wrong cardinality *)
Definition ex_q (n : Z) : Qc := Q2Qc (n # 4).
Definition ex_a : cpd := mkcpd 0 2 [] [] (map ex_q [1; 3]%Z) [(0, [10; 11]%Z)].
Definition ex_b (k : nat) : cpd :=
  mkcpd 1 2 [0] [k] (map ex_q (if Nat.eqb k 2 then [1; 2; 3; 2] else [1; 2; 1; 3; 2; 3])%Z)
        [(1, [0; 1]%Z); (0, [10; 11]%Z)].
Definition ex_bn (k : nat) : bn := {| bg := {| nodes := [1; 0]; edges := [(0, 1)] |}; bcpds := [ex_b k; ex_a] |}.
Example check_model_accepts : check_model (ex_bn 2) = CM_ok.
Proof. vm_compute. reflexivity. Qed.
Example check_model_rejects : check_model (ex_bn 3) = CM_card.
Proof. vm_compute. reflexivity. Qed.

(* 10. A network accepted by check_model, its nodes listed so that no CPD mentions the child of a later CPD
       (a topological order), cardinalities those of each node's own CPD (check_model's cardinality test
       makes every CPD consistent with them):
       (a) with exactly normalised columns the product of all CPDs sums to exactly one over all joint
           state assignments;
       (b) with non-negative entries the total lies in [(1-eps)^n, (1+eps)^n], eps = 0.01 + 1e-5 the coded
           tolerance and n the number of nodes - columns within the tolerance are what check_model
           guarantees, nothing more is assumed.
       Both by induction along the order: the last child is summed out first; its CPD column sums to one
       (resp. lies in [1-eps, 1+eps]) and no other CPD mentions it. *)
Theorem C05_joint_sums_to_one :
  forall b order cs,
    Forall wf_cpd (bcpds b) -> check_model b = CM_ok ->
    incl order (nodes (bg b)) -> Forall2 (fun v c => get_cpd b v = Some c) order cs ->
    topological cs ->
    (forall c j, In c cs -> j < prod (pcards c) -> colsum c j = Q2Qc 1) ->
    forall a, valid (bn_card b) a ->
      sum_over (R := R) (map child cs) (map (bn_card b) (map child cs))
               (eval_prod R (bn_card b) (map cfac cs)) a = Q2Qc 1.
Proof.
  intros b order cs Hwf Hck Hincl Hf2 Htopo Hsum a Ha.
  apply (joint_exact (bn_card b) cs Htopo); [|exact Hsum|exact Ha].
  intros c Hc. destruct (accepted_facts b order cs Hwf Hck Hincl Hf2 c Hc) as [W [Hcons _]]. auto.
Qed.
Print Assumptions C05_joint_sums_to_one.

Local Open Scope Qc_scope.
Theorem C05_joint_within_tolerance :
  forall b order cs,
    Forall wf_cpd (bcpds b) -> check_model b = CM_ok ->
    incl order (nodes (bg b)) -> Forall2 (fun v c => get_cpd b v = Some c) order cs ->
    topological cs ->
    (forall c x, In c cs -> In x (vals c) -> 0 <= x) ->
    forall a, valid (bn_card b) a ->
      (1 - tol) ^ length cs <=
        sum_over (R := R) (map child cs) (map (bn_card b) (map child cs))
                 (eval_prod R (bn_card b) (map cfac cs)) a /\
      sum_over (R := R) (map child cs) (map (bn_card b) (map child cs))
               (eval_prod R (bn_card b) (map cfac cs)) a <= (1 + tol) ^ length cs.
Proof.
  intros b order cs Hwf Hck Hincl Hf2 Htopo Hnn a Ha.
  apply (joint_tol (bn_card b) (1 - tol) (1 + tol) tol_lo_nonneg tol_hi_nonneg cs Htopo); [| |exact Ha].
  - intros c Hc. destruct (accepted_facts b order cs Hwf Hck Hincl Hf2 c Hc) as [W [Hcons _]].
    split; [exact W|]. split; [exact Hcons|]. intros x Hx. exact (Hnn c x Hc Hx).
  - intros c j Hc Hj. destruct (accepted_facts b order cs Hwf Hck Hincl Hf2 c Hc) as [_ [_ Hcol]].
    apply within_tol_bounds. apply Hcol. exact Hj.
Qed.
Print Assumptions C05_joint_within_tolerance.
Local Close Scope Qc_scope.

(* the hypotheses are satisfiable: the accepted example network, listed parents-first *)
Example joint_example :
  topological [ex_a; ex_b 2] /\
  Forall2 (fun v c => get_cpd (ex_bn 2) v = Some c) [0; 1] [ex_a; ex_b 2] /\
  (forall j, j < 1 -> colsum ex_a j = Q2Qc 1) /\ (forall j, j < 2 -> colsum (ex_b 2) j = Q2Qc 1).
Proof.
  split; [|split; [|split]].
  - unfold topological. simpl. split; [|split; [|exact I]].
    + intros d [<-|[]]. simpl. intuition discriminate.
    + intros d [].
  - repeat constructor.
  - intros j Hj. assert (j = 0) by lia. subst. apply Qc_is_canon. vm_compute. reflexivity.
  - intros j Hj. assert (j = 0 \/ j = 1) as [->| ->] by lia; apply Qc_is_canon; vm_compute; reflexivity.
Qed.

(* 11. Store model (C05/Store.v): copy() / to_factor() allocate five fresh containers (scope, values,
       state_names, name_to_no, no_to_name) with the original's contents; hence any in-place operation
       on one object - any sequence of assignments to that object's own containers - leaves the complete
       observable content of the other unchanged, in both directions.  With the two lookup tables shared
       (the seeded variant) the statement is false: emptying a lookup table of the factor changes the CPD. *)
Theorem C05_tofactor_copy_independent :
  forall h o, wf_obj h o ->
    let '(h', o') := clone h o in
    obs h' o' = obs h o /\ obs h' o = obs h o /\
    (forall ws, inplace_on o' ws -> obs (apply_writes h' ws) o = obs h o) /\
    (forall ws, inplace_on o ws -> obs (apply_writes h' ws) o' = obs h o).
Proof.
  intros h o W. pose proof (clone_spec h o W) as H. destruct (clone h o) as [h' o'].
  destruct H as [H1 [H2 [Hd _]]]. split; [exact H1|]. split; [exact H2|]. split.
  - intros ws Hws. rewrite obs_frame; [exact H2|]. intros w l Hw Hl E. apply (Hd l (fst w) Hl (Hws w Hw)). symmetry. exact E.
  - intros ws Hws. rewrite obs_frame; [exact H1|]. intros w l Hw Hl E. apply (Hd (fst w) l (Hws w Hw) Hl). exact E.
Qed.
Print Assumptions C05_tofactor_copy_independent.

Theorem C05_shared_lookup_tables_refuted :
  exists h o, wf_obj h o /\
    let '(h', o') := clone_shared_lookup h o in
    exists ws, inplace_on o' ws /\ obs (apply_writes h' ws) o <> obs h o.
Proof.
  exists {| cells := fun k => Some (CDict [(k, [])]); next := 5 |},
         {| o_scope := 0; o_vals := 1; o_sn := 2; o_n2no := 3; o_no2n := 4 |}.
  split.
  - intros l Hl. simpl in Hl. simpl. intuition lia.
  - exists [(3, None)]. split.
    + intros w [<-|[]]. simpl. auto.
    + vm_compute. discriminate.
Qed.
Print Assumptions C05_shared_lookup_tables_refuted.

(* 12. Construction copies its input (store model): the value container of a CPD / factor built from a
       caller's array [src] is a fresh cell with the array's contents, and all five containers are fresh.
       Hence (a) whatever is later written to the caller's array, or to any object that existed before
       (e.g. a sibling CPD built earlier from the same buffer), does not change the new object; (b) any
       in-place operation on the new object leaves the caller's array and every older object unchanged.
       A sibling built LATER from the same array is covered by instantiating the theorem at the later heap. *)
Theorem C05_construction_copies_input :
  forall h src sc sn n2 no,
    let '(h', o) := construct h src sc sn n2 no in
    cells h' (o_vals o) = cells h src /\
    (forall ws, (forall w, In w ws -> fst w < next h) -> obs (apply_writes h' ws) o = obs h' o) /\
    (forall ws, inplace_on o ws -> forall l, l < next h -> cells (apply_writes h' ws) l = cells h l).
Proof.
  intros h src sc sn n2 no. pose proof (construct_spec h src sc sn n2 no) as H.
  destruct (construct h src sc sn n2 no) as [h' o]. destruct H as [H1 [H2 H3]].
  split; [exact H1|]. split.
  - intros ws Hws. apply obs_frame. intros w l Hw Hl E. pose proof (Hws w Hw) as Hlt. destruct (H3 l Hl) as [Hge _]. unfold loc in *. rewrite <- E in Hge. lia.
  - intros ws Hws l Hl. rewrite apply_writes_frame; [apply H2; exact Hl|].
    intros w Hw E. destruct (H3 (fst w) (Hws w Hw)) as [H4 _]. unfold loc in *. rewrite E in H4. lia.
Qed.
Print Assumptions C05_construction_copies_input.

(* 13. Non-finite entries (numpy nan / +-inf, None in the model).  is_valid_cpd on a table that may hold
       them accepts only if EVERY entry is finite (and then the finite table is valid, so C05_valid_iff applies);
       in particular normalize() of a table with a zero-sum column (0/0) is never valid; and check_model on a
       network some of whose CPDs hold a non-finite entry accepts only if no node's CPD is one of them (and then
       the network is accepted by the finite check_model, so C05_check_model_sound and the joint theorems apply). *)
Theorem C05_valid_implies_finite :
  (forall oc : ocpd, is_valid_ocpd oc = true ->
     exists c : cpd, ocpd_finite oc = Some c /\ is_valid_cpd c = true /\
                     forall k, k < length (vals oc) -> nth k (vals oc) None <> None) /\
  (forall (c : cpd) j, wf_cpd c -> j < prod (pcards c) -> colsum c j = Q2Qc 0 ->
     is_valid_ocpd (normalize c) = false) /\
  (forall b nf, check_model_nf b nf = CM_ok ->
     check_model b = CM_ok /\
     forall v c, In v (nodes (bg b)) -> get_cpd b v = Some c -> ~ In (child c) nf).
Proof.
  split; [exact valid_ocpd_finite|]. split; [exact normalized_zero_column_invalid|exact check_model_nf_sound].
Qed.
Print Assumptions C05_valid_implies_finite.
