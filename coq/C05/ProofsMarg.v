(* C05 proofs, part 5: marginalize = normalised sum, reduce = normalised slice *)
From Coq Require Import List Arith ZArith Lia PeanoNat Bool QArith Qcanon Permutation.
From PV Require Import Base.Ravel Base.Semiring Base.FinSum Base.RefFactor Base.Graph
  C05.Model C05.Spec C05.ProofsTable C05.ProofsReorder C05.ProofsValid.
Import ListNotations.
Local Open Scope nat_scope.
Local Notation R := Qc_sum_csr.

(* the table entry of a CPD-shaped object at a state-index assignment *)
Definition entry_at {V} (d : V) (c : cpdT V) (a : asg) : V :=
  t_get V d (cardinality c) (vals c) (map a (variables c)).

Lemma sn_get_del m x v : sn_get (sn_del m x) v = if Nat.eqb v x then None else sn_get m v.
Proof.
  induction m as [|[k s] m IH]; simpl; [destruct (Nat.eqb v x); reflexivity|].
  destruct (Nat.eqb k x) eqn:E1; simpl.
  - rewrite IH. apply Nat.eqb_eq in E1. subst k.
    destruct (Nat.eqb v x) eqn:E2; [reflexivity|]. rewrite Nat.eqb_sym, E2. reflexivity.
  - destruct (Nat.eqb k v) eqn:E2.
    + apply Nat.eqb_eq in E2. subst k. rewrite E1. reflexivity.
    + exact IH.
Qed.

Lemma sn_get_del_all X : forall m v, ~ In v X -> sn_get (sn_del_all m X) v = sn_get m v.
Proof.
  unfold sn_del_all. induction X as [|x X IH]; intros m v Hv; [reflexivity|]. simpl.
  rewrite IH by (intros H; apply Hv; right; exact H). rewrite sn_get_del.
  destruct (Nat.eqb v x) eqn:E; [|reflexivity]. apply Nat.eqb_eq in E. subst. exfalso. apply Hv. left. reflexivity.
Qed.

Lemma vminus_cons_notin x l X : ~ In x X -> vminus (x :: l) X = x :: vminus l X.
Proof. intros H. unfold vminus. simpl. apply memv_false in H. rewrite H. reflexivity. Qed.

Lemma sn_has_wf (c : cpd) X : wf_cpd c -> incl X (variables c) -> forallb (sn_has (snames c)) X = true.
Proof.
  intros W Hi. apply forallb_forall. intros v Hv. destruct (wf_sn c W v (Hi v Hv)) as [s [Hs _]].
  unfold sn_has. rewrite Hs. reflexivity.
Qed.

(* the object built from a reference factor over child :: ps *)
Lemma built_shape (c : cpd) (ps : list var) (g : asg -> R) (sn : snmap) :
  wf_cpd c -> NoDup (child c :: ps) ->
  let c1 := mkcpd (child c) (ccard c) ps (map (cardf c) ps)
                  (fvals (fbuild R (cardf c) (child c :: ps) g)) sn in
  length (vals c1) = (ccard c1 * prod (pcards c1))%nat /\
  forall a, valid (cardf c) a -> depends_only g (child c :: ps) -> entry_at (Q2Qc 0) c1 a = g a.
Proof.
  intros W Hnd c1. split.
  - unfold c1. cbn [vals ccard pcards fvals fbuild]. rewrite t_build_length. cbn [map]. rewrite cardf_child. reflexivity.
  - intros a Ha Hd. unfold entry_at, c1, cardinality, variables. cbn [vals ccard pcards child pars].
    rewrite <- (cardf_child c).
    exact (feval_fbuild R (cardf c) (child c :: ps) g a Hnd Ha Hd).
Qed.

Theorem marginalize_ok (c : cpd) (X : list var) :
  wf_cpd c -> NoDup X -> incl X (pars c) ->
  exists c1 : cpd,
    marginalize c X = inr (normalize c1) /\
    child c1 = child c /\ ccard c1 = ccard c /\ pars c1 = vminus (pars c) X /\
    pcards c1 = map (cardf c) (pars c1) /\
    (forall v, ~ In v X -> sn_get (snames c1) v = sn_get (snames c) v) /\
    length (vals c1) = (ccard c1 * prod (pcards c1))%nat /\
    forall a, valid (cardf c) a ->
      entry_at (Q2Qc 0) c1 a =
        sum_over (R := R) (vinter (variables c) X) (map (cardf c) (vinter (variables c) X))
                 (entry_at (Q2Qc 0) c) a.
Proof.
  intros W HX Hi.
  pose proof (wf_nodup c W) as Hnd.
  assert (Hchild : ~ In (child c) X).
  { intros H. unfold variables in Hnd. inversion Hnd as [|? ? Hc _]. apply Hc. apply Hi. exact H. }
  assert (HiV : incl X (variables c)) by (intros v Hv; right; apply Hi; exact Hv).
  unfold marginalize, df_marginalize.
  replace (memv (child c) X) with false by (symmetry; apply memv_false; exact Hchild).
  replace (subsetb X (variables c)) with true by (symmetry; apply subsetb_incl; exact HiV).
  replace (nodupb X) with true by (symmetry; apply nodupb_NoDup; exact HX).
  rewrite (sn_has_wf c X W HiV). cbn [negb andb].
  eexists. split; [reflexivity|].
  assert (Hv1 : vminus (variables c) X = child c :: vminus (pars c) X)
    by (apply vminus_cons_notin; exact Hchild).
  assert (Hnd1 : NoDup (child c :: vminus (pars c) X)).
  { rewrite <- Hv1. apply NoDup_filter. exact Hnd. }
  cbn [child ccard pars pcards snames vals].
  split; [reflexivity|]. split; [reflexivity|]. split; [reflexivity|]. split; [reflexivity|].
  split; [intros v Hv; apply sn_get_del_all; exact Hv|].
  unfold fmarg. cbn [fvars cfac to_factor fst]. rewrite Hv1.
  pose proof (built_shape c (vminus (pars c) X)
                (sum_over (vinter (variables c) X) (map (cardf c) (vinter (variables c) X))
                          (feval R (cardf c) (cfac c)))
                (sn_del_all (snames c) X) W Hnd1) as [Hlen Hval].
  split; [exact Hlen|].
  intros a Ha. rewrite Hval; [| exact Ha |].
  - apply (sum_over_ext_fun R). intros b. unfold entry_at. apply feval_cfac. exact W.
  - rewrite <- Hv1. eapply depends_only_mono.
    + apply sum_over_depends_only; [apply (feval_depends_only R (cardf c) (cfac c))|symmetry; apply map_length].
    + intros v Hin. apply filter_In in Hin. destruct Hin as [Hin Hb]. apply In_vminus. split; [exact Hin|].
      intros HvX. apply negb_true_iff in Hb.
      assert (Hm : memv v (vinter (variables c) X) = true).
      { apply memv_In. apply filter_In. split; [exact Hin|apply memv_In; exact HvX]. }
      unfold memv in Hm. cbn [fvars cfac to_factor fst] in Hb. congruence.
Qed.

(* reduce: every listed parent is fixed to the position of the given state NAME *)
Theorem reduce_ok (c : cpd) (values : list (var * name)) (nos : list nat) :
  wf_cpd c -> NoDup (map fst values) -> incl (map fst values) (pars c) ->
  otraverse (fun p => name_no (snames c) (fst p) (snd p)) values = Some nos ->
  exists c1 : cpd,
    reduce c values = inr (normalize c1) /\
    child c1 = child c /\ ccard c1 = ccard c /\ pars c1 = vminus (pars c) (map fst values) /\
    pcards c1 = map (cardf c) (pars c1) /\
    (forall v, ~ In v (map fst values) -> sn_get (snames c1) v = sn_get (snames c) v) /\
    length (vals c1) = (ccard c1 * prod (pcards c1))%nat /\
    forall a, valid (cardf c) a ->
      entry_at (Q2Qc 0) c1 a = entry_at (Q2Qc 0) c (upds a (combine (map fst values) nos)).
Proof.
  intros W HX Hi Hnos. set (vs := map fst values) in *.
  pose proof (wf_nodup c W) as Hnd.
  assert (Hchild : ~ In (child c) vs).
  { intros H. unfold variables in Hnd. inversion Hnd as [|? ? Hc _]. apply Hc. apply Hi. exact H. }
  assert (HiV : incl vs (variables c)) by (intros v Hv; right; apply Hi; exact Hv).
  unfold reduce. fold vs.
  replace (memv (child c) vs) with false by (symmetry; apply memv_false; exact Hchild).
  replace (subsetb vs (variables c)) with true by (symmetry; apply subsetb_incl; exact HiV).
  rewrite Hnos.
  replace (nodupb vs) with true by (symmetry; apply nodupb_NoDup; exact HX).
  rewrite (sn_has_wf c vs W HiV). cbn [negb andb].
  assert (Hrange : forallb (fun p => snd p <? cardf c (fst p)) (combine vs nos) = true).
  { apply otraverse_inv in Hnos. unfold vs. clear -Hnos W Hi.
    induction Hnos as [|[v nm] k values nos Hk _ IH]; [reflexivity|].
    cbn [map combine forallb fst snd]. cbn [fst snd] in Hk. apply andb_true_iff. split.
    - apply Nat.ltb_lt. destruct (wf_sn c W v) as [s [Hs [Hl _]]]; [right; apply Hi; left; reflexivity|].
      unfold name_no in Hk. rewrite Hs in Hk. apply zindex_of_Some in Hk. destruct Hk as [Hk _].
      rewrite <- Hl. exact Hk.
    - apply IH. intros x Hx. apply Hi. right. exact Hx. }
  rewrite Hrange. cbn [negb].
  eexists. split; [reflexivity|].
  assert (Hfst : map fst (combine vs nos) = vs).
  { apply otraverse_inv in Hnos. unfold vs. clear -Hnos.
    induction Hnos as [|p k values nos _ _ IH]; [reflexivity|]. cbn [map combine fst]. f_equal. exact IH. }
  assert (Hv1 : vminus (variables c) vs = child c :: vminus (pars c) vs)
    by (apply vminus_cons_notin; exact Hchild).
  assert (Hnd1 : NoDup (child c :: vminus (pars c) vs)).
  { rewrite <- Hv1. apply NoDup_filter. exact Hnd. }
  cbn [child ccard pars pcards snames vals].
  split; [reflexivity|]. split; [reflexivity|]. split; [reflexivity|]. split; [reflexivity|].
  split; [intros v Hv; apply sn_get_del_all; exact Hv|].
  unfold fred. cbn [fvars cfac to_factor fst]. rewrite Hfst, Hv1.
  pose proof (built_shape c (vminus (pars c) vs)
                (fun a => feval R (cardf c) (cfac c) (upds a (combine vs nos)))
                (sn_del_all (snames c) vs) W Hnd1) as [Hlen Hval].
  split; [exact Hlen|].
  intros a Ha. rewrite Hval; [| exact Ha |].
  - unfold entry_at. apply feval_cfac. exact W.
  - rewrite <- Hv1. intros x y Hxy. apply (feval_depends_only R (cardf c) (cfac c)). intros v Hin.
    destruct (in_dec Nat.eq_dec v (map fst (combine vs nos))) as [Hm|Hm].
    + clear Hxy. revert Hm. generalize (combine vs nos) as ev.
      induction ev as [|[w i] ev IH]; intros Hm; [destruct Hm|]. cbn [upds]. unfold upd.
      destruct (Nat.eqb v w) eqn:E; [reflexivity|]. apply IH.
      destruct Hm as [Hm|Hm]; [simpl in Hm; subst; rewrite Nat.eqb_refl in E; discriminate|exact Hm].
    + rewrite !(upds_other _ _ _ Hm). apply Hxy. apply In_vminus. split; [exact Hin|].
      rewrite <- Hfst. exact Hm.
Qed.
