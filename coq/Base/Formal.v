(* Formal: formal linear combinations  sum_i c_i * atom(kind_i, x_i)  with rational coefficients and
   arguments.  The atoms LG (log-gamma) and LN (natural log) are uninterpreted; ONE is the constant 1.
   [norm] computes a canonical form (atoms strictly increasing, equal atoms merged, zero
   coefficients dropped); equality of normal forms is equivalent to equality of all coefficient
   functions ([norm_eq_iff]) and implies equality under every interpretation ([formal_sound]).
   Facts about the real functions (lgamma 1 = 0, ...) are never used by [norm]; the variant
   [norm_lg1] drops the atom LG(1) and is sound only under the explicit assumption [lg_facts]. *)
From Coq Require Import List ZArith QArith Qcanon Bool Arith Lia Permutation.
Import ListNotations.
Local Open Scope Qc_scope.

Inductive kind := LG | LN | ONE.
Definition atom : Type := (kind * Qc)%type.
Notation term := (Qc * atom)%type (only parsing).
Notation fsum := (list (Qc * atom)%type) (only parsing).

Definition kcode (k : kind) : nat := match k with LG => 0 | LN => 1 | ONE => 2 end.
Definition atom_cmp (a b : atom) : comparison :=
  match Nat.compare (kcode (fst a)) (kcode (fst b)) with
  | Eq => (snd a ?= snd b)
  | c => c
  end.

Lemma kcode_inj : forall k1 k2, kcode k1 = kcode k2 -> k1 = k2.
Proof. destruct k1, k2; simpl; congruence. Qed.

Lemma atom_cmp_eq : forall a b, atom_cmp a b = Eq -> a = b.
Proof.
  intros [k1 x1] [k2 x2]; unfold atom_cmp; simpl.
  destruct (Nat.compare_spec (kcode k1) (kcode k2)) as [E|E|E]; try discriminate.
  intros H. apply Qceq_alt in H. apply kcode_inj in E. congruence.
Qed.
Lemma atom_cmp_refl : forall a, atom_cmp a a = Eq.
Proof.
  intros [k x]; unfold atom_cmp; simpl. rewrite Nat.compare_refl. apply Qceq_alt; reflexivity.
Qed.
Lemma atom_cmp_antisym : forall a b, atom_cmp b a = CompOpp (atom_cmp a b).
Proof.
  intros [k1 x1] [k2 x2]; unfold atom_cmp; simpl.
  rewrite (Nat.compare_antisym (kcode k1) (kcode k2)).
  destruct (Nat.compare (kcode k1) (kcode k2)); simpl; auto.
  unfold Qccompare. rewrite <- Qcompare_antisym. reflexivity.
Qed.
Lemma atom_cmp_trans : forall a b c, atom_cmp a b = Lt -> atom_cmp b c = Lt -> atom_cmp a c = Lt.
Proof.
  intros [k1 x1] [k2 x2] [k3 x3]; unfold atom_cmp; simpl.
  destruct (Nat.compare_spec (kcode k1) (kcode k2)) as [E1|E1|E1]; try discriminate;
  destruct (Nat.compare_spec (kcode k2) (kcode k3)) as [E2|E2|E2]; try discriminate;
  destruct (Nat.compare_spec (kcode k1) (kcode k3)) as [E3|E3|E3]; try lia; auto.
  intros H1 H2. apply Qclt_alt. apply Qclt_alt in H1, H2. eapply Qclt_trans; eauto.
Qed.

Definition atom_eq_dec (a b : atom) : {a = b} + {a <> b}.
Proof.
  destruct (atom_cmp a b) eqn:E.
  - left; apply atom_cmp_eq; exact E.
  - right; intros ->; rewrite atom_cmp_refl in E; discriminate.
  - right; intros ->; rewrite atom_cmp_refl in E; discriminate.
Defined.

(* ---------------------------------------------------------------- coefficient function, denotation *)
Fixpoint coeff (a : atom) (s : fsum) : Qc :=
  match s with
  | [] => 0
  | (c, b) :: r => (if atom_eq_dec a b then c else 0) + coeff a r
  end.

Definition aval (interp : kind -> Qc -> Qc) (a : atom) : Qc :=
  match fst a with ONE => 1 | k => interp k (snd a) end.
Fixpoint denote (interp : kind -> Qc -> Qc) (s : fsum) : Qc :=
  match s with
  | [] => 0
  | (c, a) :: r => c * aval interp a + denote interp r
  end.

(* ---------------------------------------------------------------- operations *)
Definition fscale (c : Qc) (s : fsum) : fsum := map (fun t => (c * fst t, snd t)) s.
Definition fneg (s : fsum) : fsum := fscale (-(1)) s.
Definition fatom (c : Qc) (k : kind) (x : Qc) : fsum := [(c, (k, x))].
Definition fconst (c : Qc) : fsum := [(c, (ONE, 0))].
Definition fsumof {A} (l : list A) (F : A -> fsum) : fsum := flat_map F l.
Fixpoint qsum {A} (l : list A) (g : A -> Qc) : Qc :=
  match l with [] => 0 | x :: r => g x + qsum r g end.

Lemma coeff_app : forall a s t, coeff a (s ++ t) = coeff a s + coeff a t.
Proof. induction s as [|[c b] s IH]; intros; simpl; [ring | rewrite IH; ring]. Qed.
Lemma coeff_scale : forall a c s, coeff a (fscale c s) = c * coeff a s.
Proof.
  induction s as [|[c' b] s IH]; simpl; [ring|]. rewrite IH.
  destruct (atom_eq_dec a b); ring.
Qed.
Lemma coeff_neg : forall a s, coeff a (fneg s) = - coeff a s.
Proof. intros; unfold fneg; rewrite coeff_scale; ring. Qed.
Lemma coeff_sumof : forall A a (l : list A) F, coeff a (fsumof l F) = qsum l (fun x => coeff a (F x)).
Proof. induction l; intros; simpl; [reflexivity | rewrite coeff_app, IHl; reflexivity]. Qed.
Lemma coeff_fatom : forall a c k x, coeff a (fatom c k x) = if atom_eq_dec a (k, x) then c else 0.
Proof. intros; simpl. destruct (atom_eq_dec a (k, x)); ring. Qed.

Lemma denote_app : forall i s t, denote i (s ++ t) = denote i s + denote i t.
Proof. induction s as [|[c b] s IH]; intros; simpl; [ring | rewrite IH; ring]. Qed.
Lemma denote_scale : forall i c s, denote i (fscale c s) = c * denote i s.
Proof. induction s as [|[c' b] s IH]; simpl; [ring | rewrite IH; ring]. Qed.
Lemma denote_sumof : forall A i (l : list A) F, denote i (fsumof l F) = qsum l (fun x => denote i (F x)).
Proof. induction l; intros; simpl; [reflexivity | rewrite denote_app, IHl; reflexivity]. Qed.

(* ---------------------------------------------------------------- normal form *)
Fixpoint ins (c : Qc) (a : atom) (l : fsum) : fsum :=
  match l with
  | [] => [(c, a)]
  | (c', a') :: r =>
      match atom_cmp a a' with
      | Lt => (c, a) :: l
      | Eq => (c + c', a') :: r
      | Gt => (c', a') :: ins c a r
      end
  end.
Definition nzb (t : term) : bool := negb (Qc_eq_bool (fst t) 0).
Definition merge (s : fsum) : fsum := fold_right (fun t acc => ins (fst t) (snd t) acc) [] s.
Definition norm (s : fsum) : fsum := filter nzb (merge s).

Definition lb (a : atom) (l : fsum) : Prop := Forall (fun t => atom_cmp a (snd t) = Lt) l.
Inductive ssorted : fsum -> Prop :=
| ss_nil : ssorted []
| ss_cons : forall c a l, lb a l -> ssorted l -> ssorted ((c, a) :: l).

Lemma lb_trans : forall a b l, atom_cmp a b = Lt -> lb b l -> lb a l.
Proof.
  intros a b l H Hl. unfold lb in *. rewrite Forall_forall in *. intros t Ht.
  eapply atom_cmp_trans; eauto.
Qed.
Lemma ins_lb : forall b c a l, lb b l -> atom_cmp b a = Lt -> lb b (ins c a l).
Proof.
  induction l as [|[c' a'] l IH]; simpl; intros Hl Hba.
  - constructor; auto.
  - inversion Hl; subst. destruct (atom_cmp a a') eqn:E.
    + constructor; auto.
    + constructor; auto.
    + constructor; auto. apply IH; auto.
Qed.
Lemma ins_sorted : forall c a l, ssorted l -> ssorted (ins c a l).
Proof.
  induction l as [|[c' a'] l IH]; simpl; intros Hs.
  - constructor; [constructor | constructor].
  - inversion Hs; subst. destruct (atom_cmp a a') eqn:E.
    + constructor; auto.
    + constructor; auto. constructor; auto. eapply lb_trans; eauto.
    + constructor; auto. apply ins_lb; auto.
      rewrite atom_cmp_antisym, E; reflexivity.
Qed.
Lemma merge_sorted : forall s, ssorted (merge s).
Proof. induction s as [|[c a] s IH]; simpl; [constructor | apply ins_sorted; auto]. Qed.
Lemma filter_lb : forall a f l, lb a l -> lb a (filter f l).
Proof.
  intros a f l H. unfold lb in *. rewrite Forall_forall in *. intros t Ht.
  apply filter_In in Ht. apply H, Ht.
Qed.
Lemma filter_sorted : forall f l, ssorted l -> ssorted (filter f l).
Proof.
  induction 1; simpl; [constructor|]. destruct (f (c, a)); auto.
  constructor; auto. apply filter_lb; auto.
Qed.

Lemma coeff_ins : forall b c a l, coeff b (ins c a l) = (if atom_eq_dec b a then c else 0) + coeff b l.
Proof.
  induction l as [|[c' a'] l IH]; simpl.
  - reflexivity.
  - destruct (atom_cmp a a') eqn:E; simpl.
    + apply atom_cmp_eq in E; subst a'. destruct (atom_eq_dec b a); ring.
    + reflexivity.
    + rewrite IH. ring.
Qed.
Lemma coeff_merge : forall a s, coeff a (merge s) = coeff a s.
Proof. induction s as [|[c b] s IH]; simpl; [reflexivity | rewrite coeff_ins, IH; reflexivity]. Qed.
Lemma nzb_false : forall t, nzb t = false -> fst t = 0.
Proof.
  intros t H. unfold nzb in H. apply negb_false_iff in H. apply Qc_eq_bool_correct in H. exact H.
Qed.
Lemma nzb_true : forall t, nzb t = true -> fst t <> 0.
Proof.
  intros t H E. unfold nzb in H. apply negb_true_iff in H. unfold Qc_eq_bool in H.
  destruct (Qc_eq_dec (fst t) 0); [discriminate | contradiction].
Qed.
Lemma coeff_filter_nz : forall a l, coeff a (filter nzb l) = coeff a l.
Proof.
  induction l as [|[c b] l IH]; simpl; [reflexivity|].
  destruct (nzb (c, b)) eqn:E; simpl; rewrite IH; [reflexivity|].
  apply nzb_false in E; simpl in E; subst c. destruct (atom_eq_dec a b); ring.
Qed.
Lemma coeff_norm : forall a s, coeff a (norm s) = coeff a s.
Proof. intros; unfold norm; rewrite coeff_filter_nz, coeff_merge; reflexivity. Qed.

Lemma lb_coeff0 : forall a l, lb a l -> coeff a l = 0.
Proof.
  induction l as [|[c b] l IH]; simpl; intros H; [reflexivity|].
  inversion H; subst. rewrite IH by auto. simpl in *.
  destruct (atom_eq_dec a b) as [->|]; [rewrite atom_cmp_refl in *; discriminate | ring].
Qed.

Definition allnz (l : fsum) : Prop := Forall (fun t => fst t <> 0) l.
Lemma ssorted_inv : forall c a l, ssorted ((c, a) :: l) -> lb a l /\ ssorted l.
Proof. intros c a l H; inversion H; auto. Qed.
Lemma allnz_inv : forall c a l, allnz ((c, a) :: l) -> c <> 0 /\ allnz l.
Proof. intros c a l H; inversion H; auto. Qed.
Lemma coeff_head : forall c a l, lb a l -> coeff a ((c, a) :: l) = c.
Proof.
  intros c a l H. simpl. rewrite (lb_coeff0 a l H).
  destruct (atom_eq_dec a a); [ring | congruence].
Qed.
Lemma coeff_head_lt : forall b c a l, atom_cmp b a = Lt -> lb a l -> coeff b ((c, a) :: l) = 0.
Proof.
  intros b c a l E H. simpl. rewrite (lb_coeff0 b l) by (eapply lb_trans; eauto).
  destruct (atom_eq_dec b a) as [->|]; [rewrite atom_cmp_refl in E; discriminate | ring].
Qed.

Lemma canon_unique : forall l1 l2, ssorted l1 -> ssorted l2 -> allnz l1 -> allnz l2 ->
  (forall a, coeff a l1 = coeff a l2) -> l1 = l2.
Proof.
  induction l1 as [|[c1 a1] l1 IH]; intros l2 S1 S2 N1 N2 H.
  - destruct l2 as [|[c2 a2] l2]; [reflexivity|]. exfalso.
    apply ssorted_inv in S2. destruct S2 as [L2 S2]. apply allnz_inv in N2. destruct N2 as [Z2 N2].
    specialize (H a2). rewrite coeff_head in H by auto. simpl in H. congruence.
  - apply ssorted_inv in S1. destruct S1 as [L1 S1]. apply allnz_inv in N1. destruct N1 as [Z1 N1].
    destruct l2 as [|[c2 a2] l2].
    + exfalso. specialize (H a1). rewrite coeff_head in H by auto. simpl in H. congruence.
    + apply ssorted_inv in S2. destruct S2 as [L2 S2]. apply allnz_inv in N2. destruct N2 as [Z2 N2].
      destruct (atom_cmp a1 a2) eqn:E.
      * apply atom_cmp_eq in E; subst a2.
        assert (c1 = c2).
        { specialize (H a1). rewrite !coeff_head in H by auto. exact H. }
        subst c2. f_equal. apply IH; auto. intros a. specialize (H a). simpl in H.
        apply (f_equal (fun z => z - (if atom_eq_dec a a1 then c1 else 0))) in H.
        ring_simplify in H. exact H.
      * exfalso. specialize (H a1). rewrite coeff_head in H by auto.
        pose proof (coeff_head_lt a1 c2 a2 l2 E L2) as H0. congruence.
      * exfalso. assert (E' : atom_cmp a2 a1 = Lt) by (rewrite atom_cmp_antisym, E; reflexivity).
        specialize (H a2). pose proof (coeff_head c2 a2 l2 L2) as H1.
        pose proof (coeff_head_lt a2 c1 a1 l1 E' L1) as H0. congruence.
Qed.

Lemma norm_sorted : forall s, ssorted (norm s).
Proof. intros; apply filter_sorted, merge_sorted. Qed.
Lemma norm_allnz : forall s, allnz (norm s).
Proof.
  intros s. unfold allnz, norm. rewrite Forall_forall. intros t Ht. apply filter_In in Ht.
  apply nzb_true, Ht.
Qed.

(* equality of normal forms = equality of coefficient functions *)
Theorem norm_eq_iff : forall s t, norm s = norm t <-> (forall a, coeff a s = coeff a t).
Proof.
  intros s t; split.
  - intros H a. rewrite <- (coeff_norm a s), <- (coeff_norm a t), H. reflexivity.
  - intros H. apply canon_unique; auto using norm_sorted, norm_allnz.
    intros a. rewrite !coeff_norm. apply H.
Qed.

Lemma denote_ins : forall i c a l, denote i (ins c a l) = c * aval i a + denote i l.
Proof.
  induction l as [|[c' a'] l IH]; simpl; [reflexivity|].
  destruct (atom_cmp a a') eqn:E; simpl.
  - apply atom_cmp_eq in E; subst. ring.
  - reflexivity.
  - rewrite IH. ring.
Qed.
Lemma denote_merge : forall i s, denote i (merge s) = denote i s.
Proof. induction s as [|[c a] s IH]; simpl; [reflexivity | rewrite denote_ins, IH; reflexivity]. Qed.
Lemma denote_filter_nz : forall i l, denote i (filter nzb l) = denote i l.
Proof.
  induction l as [|[c a] l IH]; simpl; [reflexivity|].
  destruct (nzb (c, a)) eqn:E; simpl; rewrite IH; [reflexivity|].
  apply nzb_false in E; simpl in E; subst c. ring.
Qed.
Lemma denote_norm : forall i s, denote i (norm s) = denote i s.
Proof. intros; unfold norm; rewrite denote_filter_nz, denote_merge; reflexivity. Qed.

(* soundness: equal normal forms denote equal numbers under every interpretation of LG and LN *)
Theorem formal_sound : forall s t, norm s = norm t ->
  forall interp, denote interp s = denote interp t.
Proof. intros s t H i. rewrite <- (denote_norm i s), <- (denote_norm i t), H. reflexivity. Qed.

(* ---------------------------------------------------------------- the named fact lgamma(1) = 0 *)
Definition lg1 : atom := (LG, 1).
Definition is_lg1 (t : term) : bool := if atom_eq_dec (snd t) lg1 then true else false.
Definition drop_lg1 (s : fsum) : fsum := filter (fun t => negb (is_lg1 t)) s.
Definition norm_lg1 (s : fsum) : fsum := norm (drop_lg1 s).
Definition lg_facts (interp : kind -> Qc -> Qc) : Prop := interp LG 1 = 0.

Lemma coeff_drop_lg1 : forall a s, coeff a (drop_lg1 s) = if atom_eq_dec a lg1 then 0 else coeff a s.
Proof.
  induction s as [|[c b] s IH]; simpl.
  - destruct (atom_eq_dec a lg1); reflexivity.
  - unfold is_lg1; simpl. destruct (atom_eq_dec b lg1) as [->|Hb]; simpl; rewrite IH.
    + destruct (atom_eq_dec a lg1); [reflexivity | ring].
    + destruct (atom_eq_dec a lg1) as [->|]; [|reflexivity].
      destruct (atom_eq_dec lg1 b); [congruence | ring].
Qed.
Theorem norm_lg1_eq_iff : forall s t,
  norm_lg1 s = norm_lg1 t <-> (forall a, a <> lg1 -> coeff a s = coeff a t).
Proof.
  intros s t. unfold norm_lg1. rewrite norm_eq_iff. split; intros H a.
  - intros Ha. specialize (H a). rewrite !coeff_drop_lg1 in H.
    destruct (atom_eq_dec a lg1); [contradiction | exact H].
  - rewrite !coeff_drop_lg1. destruct (atom_eq_dec a lg1); [reflexivity | apply H; assumption].
Qed.
Lemma denote_drop_lg1 : forall i s, lg_facts i -> denote i (drop_lg1 s) = denote i s.
Proof.
  intros i s Hf. induction s as [|[c b] s IH]; simpl; [reflexivity|].
  unfold is_lg1; simpl. destruct (atom_eq_dec b lg1) as [->|Hb]; simpl; rewrite IH; [|reflexivity].
  unfold aval, lg1; simpl. rewrite Hf. ring.
Qed.
Theorem formal_sound_lg1 : forall s t, norm_lg1 s = norm_lg1 t ->
  forall interp, lg_facts interp -> denote interp s = denote interp t.
Proof.
  intros s t H i Hf. rewrite <- (denote_drop_lg1 i s Hf), <- (denote_drop_lg1 i t Hf).
  apply formal_sound. exact H.
Qed.
Lemma norm_eq_norm_lg1 : forall s t, norm s = norm t -> norm_lg1 s = norm_lg1 t.
Proof.
  intros s t H. apply norm_lg1_eq_iff. intros a _. revert a. apply norm_eq_iff. exact H.
Qed.

(* ---------------------------------------------------------------- sums over lists in Qc *)
Lemma qsum_app : forall A (l1 l2 : list A) g, qsum (l1 ++ l2) g = qsum l1 g + qsum l2 g.
Proof. induction l1; intros; simpl; [ring | rewrite IHl1; ring]. Qed.
Lemma qsum_ext : forall A (l : list A) g h, (forall x, In x l -> g x = h x) -> qsum l g = qsum l h.
Proof.
  induction l; intros g h H; simpl; [reflexivity|].
  rewrite (H a) by (left; reflexivity). rewrite (IHl g h); [reflexivity|].
  intros; apply H; right; assumption.
Qed.
Lemma qsum_perm : forall A (l1 l2 : list A) g, Permutation l1 l2 -> qsum l1 g = qsum l2 g.
Proof. induction 1; simpl; try ring; [rewrite IHPermutation; ring | congruence]. Qed.
Lemma qsum_plus : forall A (l : list A) g h, qsum l (fun x => g x + h x) = qsum l g + qsum l h.
Proof. induction l; intros; simpl; [ring | rewrite IHl; ring]. Qed.
Lemma qsum_scale : forall A (l : list A) c g, qsum l (fun x => c * g x) = c * qsum l g.
Proof. induction l; intros; simpl; [ring | rewrite IHl; ring]. Qed.
Lemma qsum_opp : forall A (l : list A) g, qsum l (fun x => - g x) = - qsum l g.
Proof. induction l; intros; simpl; [ring | rewrite IHl; ring]. Qed.
Lemma qsum_zero : forall A (l : list A), qsum l (fun _ => 0) = 0.
Proof. induction l; simpl; [reflexivity | rewrite IHl; ring]. Qed.
Lemma qsum_swap : forall A B (l1 : list A) (l2 : list B) g,
  qsum l1 (fun x => qsum l2 (fun y => g x y)) = qsum l2 (fun y => qsum l1 (fun x => g x y)).
Proof.
  induction l1; intros; simpl.
  - rewrite qsum_zero; reflexivity.
  - rewrite IHl1, <- qsum_plus. reflexivity.
Qed.
Lemma qsum_map : forall A B (f : A -> B) (l : list A) g, qsum (map f l) g = qsum l (fun x => g (f x)).
Proof. induction l; intros; simpl; [reflexivity | rewrite IHl; reflexivity]. Qed.
Lemma qsum_flat_map : forall A B (f : A -> list B) (l : list A) g,
  qsum (flat_map f l) g = qsum l (fun x => qsum (f x) g).
Proof. induction l; intros; simpl; [reflexivity | rewrite qsum_app, IHl; reflexivity]. Qed.
Lemma qsum_filter_split : forall A (p : A -> bool) (l : list A) g,
  qsum l g = qsum (filter p l) g + qsum (filter (fun x => negb (p x)) l) g.
Proof.
  induction l; intros; simpl; [ring|]. rewrite (IHl g). destruct (p a); simpl; ring.
Qed.

(* injection of nat *)
Definition Qn (n : nat) : Qc := Q2Qc (inject_Z (Z.of_nat n)).
Lemma Qn_add : forall a b, Qn (a + b) = Qn a + Qn b.
Proof.
  intros. apply Qc_is_canon. unfold Qn, Qcplus, Q2Qc. cbn [this]. rewrite !Qred_correct.
  rewrite Nat2Z.inj_add, inject_Z_plus. reflexivity.
Qed.
Lemma Qn_mul : forall a b, Qn (a * b) = Qn a * Qn b.
Proof.
  intros. apply Qc_is_canon. unfold Qn, Qcmult, Q2Qc. cbn [this]. rewrite !Qred_correct.
  rewrite Nat2Z.inj_mul, inject_Z_mult. reflexivity.
Qed.
Lemma Qn_0 : Qn 0 = 0. Proof. apply Qc_is_canon; reflexivity. Qed.
Lemma Qn_1 : Qn 1 = 1. Proof. apply Qc_is_canon; reflexivity. Qed.
Lemma Qn_S : forall n, Qn (S n) = 1 + Qn n.
Proof. intros. change (S n) with (1 + n)%nat. rewrite Qn_add, Qn_1. reflexivity. Qed.
Lemma Qn_inj : forall a b, Qn a = Qn b -> a = b.
Proof.
  intros a b H. unfold Qn in H. apply (f_equal this) in H. cbn [this Q2Qc] in H.
  assert (E : inject_Z (Z.of_nat a) == inject_Z (Z.of_nat b)).
  { rewrite <- (Qred_correct (inject_Z (Z.of_nat a))), H. apply Qred_correct. }
  unfold Qeq in E. simpl in E. lia.
Qed.
Lemma qsum_const : forall A (l : list A) c, qsum l (fun _ => c) = Qn (length l) * c.
Proof. induction l; intros; simpl length; [rewrite Qn_0; simpl; ring | rewrite Qn_S; simpl; rewrite IHl; ring]. Qed.

(* the sum over a duplicate-free universe U splits into the sum over a duplicate-free sub-list O and
   (|U| - |O|) copies of the common value g0 outside O *)
Lemma qsum_split_const : forall A (U O : list A) (g : A -> Qc) g0,
  NoDup U -> NoDup O -> incl O U -> (forall u, In u U -> ~ In u O -> g u = g0) ->
  (forall x y : A, {x = y} + {x <> y}) ->
  qsum U g = qsum O g + (Qn (length U) - Qn (length O)) * g0.
Proof.
  intros A U O g g0 HU HO Hincl Hout dec.
  set (p := fun u => if in_dec dec u O then true else false).
  rewrite (qsum_filter_split A p U g).
  assert (P1 : Permutation (filter p U) O).
  { apply NoDup_Permutation; auto using NoDup_filter.
    intros x. rewrite filter_In. unfold p. destruct (in_dec dec x O); split; intros; try tauto.
    - split; auto.
    - destruct H; discriminate. }
  rewrite (qsum_perm _ _ _ g P1).
  rewrite (qsum_ext _ (filter (fun x => negb (p x)) U) g (fun _ => g0)).
  2:{ intros x Hx. apply filter_In in Hx. destruct Hx as [HxU Hp]. apply Hout; auto.
      unfold p in Hp. destruct (in_dec dec x O); [discriminate | assumption]. }
  rewrite qsum_const. f_equal. f_equal.
  assert (L : (length U = length (filter p U) + length (filter (fun x => negb (p x)) U))%nat).
  { clear. induction U; simpl; auto. destruct (p a); simpl; lia. }
  rewrite L, Qn_add, (Permutation_length P1). ring.
Qed.
