(* Assignments (variable -> state index) and finite sums ("sum" of any csr: also max) over all values
   of a list of variables.  No functional extensionality: functions of assignments are required to be
   extensional w.r.t. pointwise equality [aeq]. *)
From Coq Require Import List Arith Lia PeanoNat.
From PV Require Import Base.Semiring.
Import ListNotations.

Definition var := nat.
Definition asg := var -> nat.
Definition aeq (a b : asg) : Prop := forall v, a v = b v.
Definition upd (a : asg) (v : var) (i : nat) : asg := fun w => if Nat.eqb w v then i else a w.

Lemma aeq_refl a : aeq a a. Proof. intros v; reflexivity. Qed.
Lemma aeq_sym a b : aeq a b -> aeq b a. Proof. intros H v; symmetry; apply H. Qed.
Lemma aeq_trans a b c : aeq a b -> aeq b c -> aeq a c. Proof. intros H1 H2 v; rewrite H1; apply H2. Qed.
Lemma upd_aeq a b v i : aeq a b -> aeq (upd a v i) (upd b v i).
Proof. intros H w. unfold upd. destruct (Nat.eqb w v); [reflexivity|apply H]. Qed.
Lemma upd_same a v i : upd a v i v = i.
Proof. unfold upd. rewrite Nat.eqb_refl. reflexivity. Qed.
Lemma upd_other a v i w : w <> v -> upd a v i w = a w.
Proof. intros H. unfold upd. apply Nat.eqb_neq in H. rewrite H. reflexivity. Qed.
Lemma upd_comm a v i w j : v <> w -> aeq (upd (upd a v i) w j) (upd (upd a w j) v i).
Proof.
  intros H x. unfold upd. destruct (Nat.eqb x w) eqn:E1, (Nat.eqb x v) eqn:E2; try reflexivity.
  apply Nat.eqb_eq in E1, E2. subst. contradiction.
Qed.
Lemma upd_upd a v i j : aeq (upd (upd a v i) v j) (upd a v j).
Proof. intros x. unfold upd. destruct (Nat.eqb x v); reflexivity. Qed.
Lemma upd_id a v : aeq (upd a v (a v)) a.
Proof. intros x. unfold upd. destruct (Nat.eqb x v) eqn:E; [apply Nat.eqb_eq in E; subst|]; reflexivity. Qed.

Section FinSum.
Variable R : csr.
Implicit Types g h : asg -> R.

Definition ext g : Prop := forall a b, aeq a b -> g a = g b.
(* g does not look at variable v / at any variable of vs *)
Definition ignores g (v : var) : Prop := forall a i, g (upd a v i) = g a.
Definition ignores_all g (vs : list var) : Prop := forall v, In v vs -> ignores g v.
(* g looks only at the variables in S *)
Definition depends_only g (S : list var) : Prop :=
  forall a b, (forall v, In v S -> a v = b v) -> g a = g b.

Lemma depends_only_ext g S : depends_only g S -> ext g.
Proof. intros H a b Hab. apply H. intros v _. apply Hab. Qed.
Lemma depends_only_ignores g S v : depends_only g S -> ~ In v S -> ignores g v.
Proof.
  intros H Hn a i. apply H. intros w Hw. apply upd_other. intros E. subst. contradiction.
Qed.
Lemma depends_only_mono g S S' : depends_only g S -> incl S S' -> depends_only g S'.
Proof. intros H Hi a b Hab. apply H. intros v Hv. apply Hab. apply Hi. exact Hv. Qed.

(* sum over all joint values of the variables vs with cardinalities cs, other variables as in a *)
Fixpoint sum_over (vs : list var) (cs : list nat) g (a : asg) : R :=
  match vs, cs with
  | v :: vs', c :: cs' => sum_list (map (fun i => sum_over vs' cs' g (upd a v i)) (seq 0 c))
  | _, _ => g a
  end.

Lemma sum_over_ext_fun vs : forall cs g h a,
  (forall b, g b = h b) -> sum_over vs cs g a = sum_over vs cs h a.
Proof.
  induction vs as [|v vs IH]; intros cs g h a H; [apply H|].
  destruct cs as [|c cs]; [apply H|]. cbn [sum_over].
  apply sum_list_ext. intros i _. apply IH. exact H.
Qed.

Lemma sum_over_aeq vs : forall cs g a b, ext g -> aeq a b -> sum_over vs cs g a = sum_over vs cs g b.
Proof.
  induction vs as [|v vs IH]; intros cs g a b Hg Hab; [apply Hg; exact Hab|].
  destruct cs as [|c cs]; [apply Hg; exact Hab|]. cbn [sum_over].
  apply sum_list_ext. intros i _. apply IH; [exact Hg|]. apply upd_aeq. exact Hab.
Qed.

Lemma sum_over_is_ext vs cs g : ext g -> ext (sum_over vs cs g).
Proof. intros Hg a b Hab. apply sum_over_aeq; assumption. Qed.

Lemma ok_sum_over vs : forall cs g a, (forall b, ok (g b)) -> ok (sum_over vs cs g a).
Proof.
  induction vs as [|v vs IH]; intros cs g a H; [apply H|].
  destruct cs as [|c cs]; [apply H|]. cbn [sum_over].
  apply ok_sum_list. apply Forall_forall. intros x Hx. apply in_map_iff in Hx.
  destruct Hx as [i [<- _]]. apply IH. exact H.
Qed.

Lemma sum_over_app vs1 : forall vs2 cs1 cs2 g a, length vs1 = length cs1 ->
  sum_over (vs1 ++ vs2) (cs1 ++ cs2) g a = sum_over vs1 cs1 (sum_over vs2 cs2 g) a.
Proof.
  induction vs1 as [|v vs1 IH]; intros vs2 cs1 cs2 g a Hl; destruct cs1 as [|c cs1]; try discriminate.
  - reflexivity.
  - cbn [app sum_over]. apply sum_list_ext. intros i _. apply IH. simpl in Hl. lia.
Qed.

(* a factor of the summand that ignores the summed variables moves out of the sum *)
Lemma sum_over_mul_l vs : forall cs f g a,
  ignores_all f vs -> (forall b, ok (f b)) ->
  sum_over vs cs (fun b => mul (f b) (g b)) a = mul (f a) (sum_over vs cs g a).
Proof.
  induction vs as [|v vs IH]; intros cs f g a Hi Hok; [reflexivity|].
  destruct cs as [|c cs]; [reflexivity|]. cbn [sum_over].
  rewrite sum_list_mul_l by apply Hok. rewrite map_map.
  apply sum_list_ext. intros i _.
  rewrite IH; [|intros w Hw; apply Hi; right; exact Hw|exact Hok].
  rewrite (Hi v (or_introl eq_refl)). reflexivity.
Qed.

Lemma sum_over_mul_r vs cs f g a :
  ignores_all f vs -> (forall b, ok (f b)) ->
  sum_over vs cs (fun b => mul (g b) (f b)) a = mul (sum_over vs cs g a) (f a).
Proof.
  intros Hi Hok. rewrite (mul_comm R (sum_over vs cs g a) (f a)).
  rewrite <- sum_over_mul_l by assumption. apply sum_over_ext_fun. intros b. apply mul_comm.
Qed.

(* summing ignores what the outer assignment says about the summed variables *)
Lemma sum_over_upd_absorb vs : forall cs g a v i, ext g -> In v vs -> length vs = length cs ->
  sum_over vs cs g (upd a v i) = sum_over vs cs g a.
Proof.
  induction vs as [|w vs IH]; intros cs g a v i Hg Hin Hl; [destruct Hin|].
  destruct cs as [|c cs]; [discriminate|]. cbn [sum_over].
  apply sum_list_ext. intros j _.
  destruct (Nat.eq_dec v w) as [->|Hne].
  - apply sum_over_aeq; [exact Hg|]. apply upd_upd.
  - destruct Hin as [Hin|Hin]; [congruence|].
    rewrite (sum_over_aeq vs cs g _ (upd (upd a w j) v i) Hg (upd_comm a v i w j Hne)).
    apply IH; [exact Hg|exact Hin|simpl in Hl; lia].
Qed.

(* Fubini: a single variable moves across a block *)
Lemma sum_over_swap1 vs : forall cs v c g a, ext g -> ~ In v vs ->
  sum_over [v] [c] (sum_over vs cs g) a = sum_over vs cs (sum_over [v] [c] g) a.
Proof.
  induction vs as [|w vs IH]; intros cs v c g a Hg Hn; [reflexivity|].
  destruct cs as [|d cs]; [reflexivity|].
  cbn [sum_over] in *.
  assert (Hvw : v <> w) by (intros E; apply Hn; left; symmetry; exact E).
  assert (Hn' : ~ In v vs) by (intros E; apply Hn; right; exact E).
  transitivity (sum_list (map (fun i => sum_list (map (fun j => sum_over vs cs g (upd (upd a w j) v i)) (seq 0 d))) (seq 0 c))).
  { apply sum_list_ext. intros i _. apply sum_list_ext. intros j _.
    apply sum_over_aeq; [exact Hg|]. apply upd_comm. exact Hvw. }
  rewrite (sum_list_swap R (fun i j => sum_over vs cs g (upd (upd a w j) v i))).
  apply sum_list_ext. intros j _.
  specialize (IH cs v c g (upd a w j) Hg Hn'). cbn [sum_over] in IH. exact IH.
Qed.

Lemma sum_over_cons v vs c cs g a :
  sum_over (v :: vs) (c :: cs) g a = sum_over [v] [c] (sum_over vs cs g) a.
Proof. reflexivity. Qed.

(* sums over two disjoint blocks commute *)
Lemma sum_over_swap vs1 : forall cs1 vs2 cs2 g a, ext g ->
  (forall v, In v vs1 -> ~ In v vs2) -> length vs1 = length cs1 ->
  sum_over vs1 cs1 (sum_over vs2 cs2 g) a = sum_over vs2 cs2 (sum_over vs1 cs1 g) a.
Proof.
  induction vs1 as [|v vs1 IH]; intros cs1 vs2 cs2 g a Hg Hd Hl; destruct cs1 as [|c cs1]; try discriminate.
  - reflexivity.
  - rewrite sum_over_cons.
    transitivity (sum_over [v] [c] (sum_over vs2 cs2 (sum_over vs1 cs1 g)) a).
    { apply sum_list_ext. intros i _.
      apply IH; [exact Hg|intros w Hw; apply Hd; right; exact Hw|simpl in Hl; lia]. }
    rewrite sum_over_swap1; [|apply sum_over_is_ext; exact Hg|apply Hd; left; reflexivity].
    apply sum_over_ext_fun. intros b. reflexivity.
Qed.

(* the result of summing over vs no longer depends on vs *)
Lemma sum_over_ignores vs cs g v : ext g -> In v vs -> length vs = length cs -> ignores (sum_over vs cs g) v.
Proof. intros Hg Hin Hl a i. apply sum_over_upd_absorb; assumption. Qed.

Lemma sum_over_depends_only vs cs g S :
  depends_only g S -> length vs = length cs ->
  depends_only (sum_over vs cs g) (filter (fun x => negb (existsb (Nat.eqb x) vs)) S).
Proof.
  revert cs g. induction vs as [|v vs IH]; intros cs g Hd Hl; destruct cs as [|c cs]; try discriminate.
  - intros a b Hab. apply Hd. intros w Hw. apply Hab. apply filter_In. split; [exact Hw|reflexivity].
  - intros a b Hab. cbn [sum_over]. apply sum_list_ext. intros i _.
    apply (IH cs g Hd (f_equal pred Hl)). intros w Hw. apply filter_In in Hw. destruct Hw as [HwS Hw].
    unfold upd. destruct (Nat.eqb w v) eqn:E; [reflexivity|]. apply Hab. apply filter_In.
    split; [exact HwS|]. cbn [existsb]. rewrite E. exact Hw.
Qed.
End FinSum.

Arguments sum_over {R}. Arguments ext {R}. Arguments ignores {R}. Arguments ignores_all {R}.
Arguments depends_only {R}.
