(* Mixed-radix (row-major, last index fastest) ravel/unravel: numpy's C order. *)
From Coq Require Import List Arith Lia PeanoNat.
Import ListNotations.

Definition prod (l : list nat) : nat := fold_right Nat.mul 1 l.

Fixpoint ravel (cards idx : list nat) : nat :=
  match cards, idx with
  | _ :: cs, i :: is_ => i * prod cs + ravel cs is_
  | _, _ => 0
  end.

Fixpoint unravel (cards : list nat) (n : nat) : list nat :=
  match cards with
  | [] => []
  | _ :: cs => n / prod cs :: unravel cs (n mod prod cs)
  end.

(* idx is a valid index tuple for shape cards *)
Inductive in_range : list nat -> list nat -> Prop :=
| ir_nil : in_range [] []
| ir_cons c cs i is_ : i < c -> in_range cs is_ -> in_range (c :: cs) (i :: is_).

Lemma in_range_length cards idx : in_range cards idx -> length idx = length cards.
Proof. induction 1; simpl; congruence. Qed.

Lemma prod_cons c cs : prod (c :: cs) = c * prod cs.
Proof. reflexivity. Qed.

Lemma prod_app a b : prod (a ++ b) = prod a * prod b.
Proof. induction a as [|x a IH]; simpl; [lia|]. fold (prod (a ++ b)) (prod a). rewrite IH. lia. Qed.

Lemma in_range_prod_pos cards idx : in_range cards idx -> 0 < prod cards.
Proof.
  induction 1 as [|c cs i is_ Hi _ IH]; [simpl; lia|].
  rewrite prod_cons. apply Nat.mul_pos_pos; lia.
Qed.

Lemma ravel_lt cards idx : in_range cards idx -> ravel cards idx < prod cards.
Proof.
  induction 1 as [|c cs i is_ Hi _ IH]; [simpl; lia|].
  cbn [ravel]. rewrite prod_cons.
  assert (i * prod cs + ravel cs is_ < (i + 1) * prod cs) by lia.
  assert ((i + 1) * prod cs <= c * prod cs) by (apply Nat.mul_le_mono_r; lia).
  lia.
Qed.

Lemma unravel_ravel cards idx : in_range cards idx -> unravel cards (ravel cards idx) = idx.
Proof.
  induction 1 as [|c cs i is_ Hi Hr IH]; [reflexivity|].
  cbn [ravel unravel]. pose proof (ravel_lt _ _ Hr) as Hlt.
  assert (Hp : prod cs <> 0) by lia.
  rewrite Nat.div_add_l by exact Hp. rewrite (Nat.div_small _ _ Hlt), Nat.add_0_r.
  f_equal.
  rewrite Nat.add_comm, Nat.mod_add by exact Hp. rewrite Nat.mod_small by exact Hlt. exact IH.
Qed.

Lemma unravel_in_range cards : forall n, n < prod cards -> in_range cards (unravel cards n).
Proof.
  induction cards as [|c cs IH]; intros n Hn; [constructor|].
  cbn [unravel]. rewrite prod_cons in Hn.
  assert (Hp : prod cs <> 0) by (intro E; rewrite E in Hn; lia).
  constructor.
  - apply Nat.div_lt_upper_bound; [exact Hp|lia].
  - apply IH. apply Nat.mod_upper_bound. exact Hp.
Qed.

Lemma ravel_unravel cards : forall n, n < prod cards -> ravel cards (unravel cards n) = n.
Proof.
  induction cards as [|c cs IH]; intros n Hn; [simpl in *; lia|].
  cbn [unravel ravel]. rewrite prod_cons in Hn.
  assert (Hp : prod cs <> 0) by (intro E; rewrite E in Hn; lia).
  rewrite IH by (apply Nat.mod_upper_bound; exact Hp).
  rewrite (Nat.div_mod n (prod cs) Hp) at 3. lia.
Qed.

Lemma unravel_length cards n : length (unravel cards n) = length cards.
Proof. revert n. induction cards as [|c cs IH]; intros n; simpl; [reflexivity|]. rewrite IH. reflexivity. Qed.

(* ---- tensors as flat row-major lists ------------------------------------------------- *)
Section Tensor.
Variable K : Type.
Variable k0 : K.

Definition t_build (cards : list nat) (f : list nat -> K) : list K :=
  map (fun n => f (unravel cards n)) (seq 0 (prod cards)).
Definition t_get (cards : list nat) (data : list K) (idx : list nat) : K :=
  nth (ravel cards idx) data k0.

Lemma t_build_length cards f : length (t_build cards f) = prod cards.
Proof. unfold t_build. rewrite map_length, seq_length. reflexivity. Qed.

Theorem t_get_build cards f idx : in_range cards idx -> t_get cards (t_build cards f) idx = f idx.
Proof.
  intros Hr. unfold t_get, t_build. pose proof (ravel_lt _ _ Hr) as Hlt.
  rewrite nth_indep with (d' := f (unravel cards 0)) by (rewrite map_length, seq_length; exact Hlt).
  rewrite (map_nth (fun n => f (unravel cards n)) (seq 0 (prod cards)) 0).
  rewrite seq_nth by exact Hlt. simpl. rewrite (unravel_ravel _ _ Hr). reflexivity.
Qed.

(* two tensors of the right length with the same entries are equal *)
Lemma t_ext cards (d1 d2 : list K) :
  length d1 = prod cards -> length d2 = prod cards ->
  (forall idx, in_range cards idx -> t_get cards d1 idx = t_get cards d2 idx) -> d1 = d2.
Proof.
  intros H1 H2 H. apply nth_ext with (d := k0) (d' := k0); [congruence|].
  intros n Hn. rewrite H1 in Hn.
  specialize (H (unravel cards n) (unravel_in_range _ _ Hn)).
  unfold t_get in H. rewrite (ravel_unravel _ _ Hn) in H. exact H.
Qed.
End Tensor.
