(* Soundness of d-separation (the global Markov property) for every directed acyclic graph, over any
   commutative semiring (a [csr] all of whose elements are [ok]).

   Setting: a well-formed DAG [g], a potential [F x : asg -> R] per node that looks only at x and its
   parents and sums to one over x (a conditional distribution), joint = product of the potentials.
   Path-based d-connection is C08/Spec.v's [dconnected]; its verified worklist characterisation
   (C08/ProofsTrail.v: [R], the reachability relation over (node, direction) states) is the tool.

   Main results (no size bound, no division):
     sum_split            sums over two disjoint blocks of a product f * h factor when f ignores the
                          second block and h the first
     ancestral_sum        summing the joint over the complement of an ancestor-closed set leaves the
                          product of the potentials of the set (leaf-first order exists in every DAG)
     scope_A / scope_B    for sources X, observed Z and W = ancestors of targets T (each target a source,
                          observed, or not d-connected to X): every node of W has its whole scope
                          inside (d-connected to X) u Z, or disjoint from (d-connected to X)
     marg_factor          hence every marginal over S (Z <= S <= W) is a product alpha(S) * beta(S)
     gmp                  X _|_ Y | Z in product form:
                          P(x,y,z) * P(z) = P(x,z) * P(y,z)  whenever no x in X is d-connected to a y in Y *)
From Coq Require Import List Bool Arith Lia PeanoNat Permutation.
From PV Require Import Base.Semiring Base.FinSum Base.Reach Base.Graph Base.RefFactor
  C08.Model C08.Spec C08.ProofsTrail C08.ProofsMisc.
Import ListNotations.

(* ------------------------------------------------------------------ list facts *)
Lemma filter_filter {A} (p q : A -> bool) l : filter p (filter q l) = filter (fun x => q x && p x) l.
Proof.
  induction l as [|x l IH]; [reflexivity|]. cbn [filter]. destruct (q x); cbn [filter andb]; [|exact IH].
  destruct (p x); [f_equal|]; exact IH.
Qed.
Lemma filter_all {A} (p : A -> bool) l : (forall x, In x l -> p x = true) -> filter p l = l.
Proof.
  induction l as [|x l IH]; intros H; [reflexivity|]. cbn [filter]. rewrite (H x (or_introl eq_refl)).
  f_equal. apply IH. intros y Hy. apply H. right. exact Hy.
Qed.
Lemma NoDup_filter' {A} (p : A -> bool) l : NoDup l -> NoDup (filter p l).
Proof.
  induction 1 as [|x l Hx Hn IH]; simpl; [constructor|].
  destruct (p x); [constructor; [|exact IH]|exact IH].
  intros Hi. apply filter_In in Hi. apply Hx. apply Hi.
Qed.
Lemma NoDup_app' {A} (l1 l2 : list A) :
  NoDup l1 -> NoDup l2 -> (forall x, In x l1 -> ~ In x l2) -> NoDup (l1 ++ l2).
Proof.
  induction 1 as [|x l1 Hx Hn IH]; intros H2 Hd; simpl; [exact H2|].
  constructor.
  - intros Hi. apply in_app_or in Hi. destruct Hi as [Hi|Hi]; [contradiction|].
    exact (Hd x (or_introl eq_refl) Hi).
  - apply IH; [exact H2|]. intros y Hy. apply Hd. right. exact Hy.
Qed.
Lemma exists_min (f : nat -> nat) (l : list nat) : l <> [] -> exists m, In m l /\ forall y, In y l -> f m <= f y.
Proof.
  induction l as [|x l IH]; intros Hne; [congruence|]. destruct l as [|x' l'].
  - exists x. split; [left; reflexivity|]. intros y [<-|[]]. apply Nat.le_refl.
  - destruct IH as [m [Hm Hmin]]; [discriminate|].
    destruct (Nat.le_gt_cases (f x) (f m)) as [Hle|Hgt].
    + exists x. split; [left; reflexivity|]. intros y [<-|Hy]; [apply Nat.le_refl|].
      specialize (Hmin y Hy). lia.
    + exists m. split; [right; exact Hm|]. intros y [<-|Hy]; [lia|apply Hmin; exact Hy].
Qed.

(* ================================================================== A. sums *)
Section Sums.
Variable R : csr.
Hypothesis all_ok : forall x : R, ok x.
Variable card : var -> nat.
Notation valid := (valid card).

Lemma sum_over_perm_g (o1 o2 : list var) : Permutation o1 o2 -> forall (f : asg -> R) a, NoDup o1 -> ext f ->
  sum_over o1 (map card o1) f a = sum_over o2 (map card o2) f a.
Proof.
  induction 1 as [|x l1 l2 Hp IH|x y l|l1 l2 l3 Hp1 IH1 Hp2 IH2]; intros f a Hn Hf.
  - reflexivity.
  - inversion Hn; subst. cbn [map sum_over]. apply sum_list_ext. intros i _. apply IH; assumption.
  - inversion Hn as [|? ? Hy Hn']; subst. inversion Hn' as [|? ? Hx Hn'']; subst.
    cbn [map sum_over].
    rewrite (sum_list_swap R (fun i j => sum_over l (map card l) f (upd (upd a y i) x j))).
    apply sum_list_ext. intros j _. apply sum_list_ext. intros i _.
    apply sum_over_aeq; [exact Hf|]. apply upd_comm. intros E. apply Hy. left. symmetry. exact E.
  - rewrite IH1 by assumption. apply IH2; [|exact Hf]. eapply Permutation_NoDup; eassumption.
Qed.

Lemma sum_over_valid_ext vs : forall (f h : asg -> R) a, valid a ->
  (forall b, valid b -> f b = h b) ->
  sum_over vs (map card vs) f a = sum_over vs (map card vs) h a.
Proof.
  induction vs as [|v vs IH]; intros f h a Ha H; [apply H; exact Ha|].
  cbn [map sum_over]. apply sum_list_ext. intros i Hi. apply in_seq in Hi.
  apply IH; [apply valid_upd; [exact Ha|lia]|exact H].
Qed.

(* a function that ignores v still does after summing over other variables *)
Lemma ignores_sum_over vs : forall cs (f : asg -> R) v, ext f -> ignores f v -> ~ In v vs ->
  ignores (sum_over vs cs f) v.
Proof.
  induction vs as [|w vs IH]; intros cs f v Hf Hi Hn a i; [apply Hi|].
  destruct cs as [|c cs]; [apply Hi|]. cbn [sum_over]. apply sum_list_ext. intros j _.
  assert (Hvw : v <> w) by (intros E; apply Hn; left; symmetry; exact E).
  rewrite (sum_over_aeq R vs cs f _ (upd (upd a w j) v i) Hf (upd_comm a v i w j Hvw)).
  apply IH; [exact Hf|exact Hi|]. intros H. apply Hn. right. exact H.
Qed.

Lemma mul_ext (f h : asg -> R) : ext f -> ext h -> ext (fun b => mul (f b) (h b)).
Proof. intros Hf Hh a b Hab. rewrite (Hf a b Hab), (Hh a b Hab). reflexivity. Qed.

(* SPLIT: two disjoint blocks of summed variables, f blind to the second, h blind to the first *)
Theorem sum_split (SA SB : list var) (f h : asg -> R) a :
  ext f -> ext h -> ignores_all f SB -> ignores_all h SA -> (forall v, In v SA -> ~ In v SB) ->
  sum_over (SA ++ SB) (map card (SA ++ SB)) (fun b => mul (f b) (h b)) a =
  mul (sum_over SA (map card SA) f a) (sum_over SB (map card SB) h a).
Proof.
  intros Hf Hh HfB HhA Hd. rewrite map_app.
  rewrite (sum_over_app R SA SB (map card SA) (map card SB)) by (symmetry; apply map_length).
  rewrite (sum_over_ext_fun R SA (map card SA) _
             (fun b => mul (f b) (sum_over SB (map card SB) h b)) a).
  2:{ intros b. apply sum_over_mul_l; [exact HfB|intros c; apply all_ok]. }
  apply sum_over_mul_r; [|intros c; apply all_ok].
  intros v Hv. apply ignores_sum_over; [exact Hh|apply HhA; exact Hv|apply Hd; exact Hv].
Qed.

(* products of node potentials *)
Variable F : var -> asg -> R.
Definition jprod (L : list var) (a : asg) : R := prod_list (map (fun x => F x a) L).

Lemma jprod_cons x L a : jprod (x :: L) a = mul (F x a) (jprod L a).
Proof. reflexivity. Qed.
Lemma jprod_ext L : (forall x, In x L -> ext (F x)) -> ext (jprod L).
Proof.
  intros H a b Hab. unfold jprod. f_equal. apply map_ext_in. intros x Hx. apply (H x Hx). exact Hab.
Qed.
Lemma jprod_ignores L v : (forall x, In x L -> ignores (F x) v) -> ignores (jprod L) v.
Proof. intros H a i. unfold jprod. f_equal. apply map_ext_in. intros x Hx. apply (H x Hx). Qed.
Lemma jprod_depends L S : (forall x, In x L -> depends_only (F x) S) -> depends_only (jprod L) S.
Proof. intros H a b Hab. unfold jprod. f_equal. apply map_ext_in. intros x Hx. apply (H x Hx). exact Hab. Qed.
Lemma jprod_filter_split (p : var -> bool) L a :
  jprod L a = mul (jprod (filter p L) a) (jprod (filter (fun x => negb (p x)) L) a).
Proof.
  unfold jprod. induction L as [|x L IH]; simpl; [symmetry; apply mul_1_l|].
  rewrite IH. destruct (p x); simpl.
  - symmetry. rewrite <- mul_assoc. reflexivity.
  - rewrite (mul_assoc R). rewrite (mul_comm R (F x a)). rewrite <- (mul_assoc R). reflexivity.
Qed.
Lemma jprod_zero L x a : In x L -> F x a = zero -> jprod L a = zero.
Proof.
  induction L as [|y L IH]; intros Hin Hz; [destruct Hin|]. rewrite jprod_cons.
  destruct Hin as [->|Hin]; [rewrite Hz; apply mul_0_l|]. rewrite (IH Hin Hz). apply mul_0_r.
Qed.
Lemma jprod_remv x L a : NoDup L -> In x L ->
  jprod L a = mul (F x a) (jprod (filter (fun y => negb (Nat.eqb y x)) L) a).
Proof.
  induction L as [|y L IH]; intros Hn Hin; [destruct Hin|]. inversion Hn as [|? ? Hy Hn']; subst.
  cbn [filter]. destruct (Nat.eqb y x) eqn:E.
  - apply Nat.eqb_eq in E. subst y. cbn [negb]. rewrite jprod_cons. f_equal. f_equal.
    symmetry. apply filter_all. intros z Hz. apply negb_true_iff, Nat.eqb_neq. intros ->. contradiction.
  - cbn [negb]. rewrite !jprod_cons. destruct Hin as [->|Hin]; [rewrite Nat.eqb_refl in E; discriminate|].
    rewrite (IH Hn' Hin). rewrite !(mul_assoc R). rewrite (mul_comm R (F y a)). reflexivity.
Qed.
End Sums.

(* ================================================================== B. barren nodes of a DAG *)
Definition remv (x : var) (A : list var) : list var := filter (fun y => negb (Nat.eqb y x)) A.

Lemma perm_remv (m : var) l : NoDup l -> In m l -> Permutation (m :: remv m l) l.
Proof.
  unfold remv. induction l as [|x l IH]; intros Hn Hin; [destruct Hin|].
  inversion Hn as [|? ? Hx Hn']; subst. simpl. destruct (Nat.eqb x m) eqn:E; simpl.
  - apply Nat.eqb_eq in E. subst. apply perm_skip.
    rewrite filter_all; [apply Permutation_refl|]. intros z Hz. apply negb_true_iff, Nat.eqb_neq.
    intros ->. contradiction.
  - destruct Hin as [->|Hin]; [rewrite Nat.eqb_refl in E; discriminate|].
    eapply Permutation_trans; [apply perm_swap|]. apply perm_skip. apply IH; assumption.
Qed.

Definition hdesc (g : digraph) (x : var) : nat := length (desc_of g [x]).

Lemma desc_nodup' g src : wf_graph g -> NoDup (desc_of g src).
Proof.
  intros Hw. unfold desc_of. destruct (search_children_total g src Hw) as [r Hr]. rewrite Hr.
  apply (search_nodup node Nat.eqb nat_eqb_spec (children g) _ _ _ _ Hr). constructor.
Qed.

Lemma hdesc_lt' g x y : wf_graph g -> acyclic g -> In (x, y) (edges g) -> hdesc g y < hdesc g x.
Proof.
  intros Hw Hac He. unfold hdesc.
  assert (Hx : In x (desc_of g [x])).
  { apply desc_of_spec; [exact Hw|]. exists x. split; [left; reflexivity|apply dpath_refl]. }
  assert (Hnx : ~ In x (desc_of g [y])).
  { intros H. apply desc_of_spec in H; [|exact Hw]. destruct H as [s [[<-|[]] Hp]]. exact (Hac x y He Hp). }
  assert (Hincl : incl (x :: desc_of g [y]) (desc_of g [x])).
  { intros z [<-|Hz]; [exact Hx|]. apply desc_of_spec in Hz; [|exact Hw]. destruct Hz as [s [[<-|[]] Hp]].
    apply desc_of_spec; [exact Hw|]. exists x. split; [left; reflexivity|]. eapply dpath_step_l; eassumption. }
  assert (Hnd : NoDup (x :: desc_of g [y])) by (constructor; [exact Hnx|apply desc_nodup'; exact Hw]).
  exact (NoDup_incl_length Hnd Hincl).
Qed.

Section DAG.
Variable R : csr.
Hypothesis all_ok : forall x : R, ok x.
Variable card : var -> nat.
Variable g : digraph.
Variable F : var -> asg -> R.
Hypothesis Hwf : wf_graph g.
Hypothesis Hac : acyclic g.
Hypothesis Fdep : forall x, In x (nodes g) -> depends_only (F x) (x :: parents g x).
Hypothesis Fsum : forall x, In x (nodes g) -> forall a, valid card a -> sum_over [x] [card x] (F x) a = one.

Notation valid := (valid card).
Notation jprod := (jprod R F).

Lemma F_ext x : In x (nodes g) -> ext (F x).
Proof. intros Hx. eapply depends_only_ext. apply Fdep. exact Hx. Qed.
Lemma F_ignores x v : In x (nodes g) -> v <> x -> ~ In (v, x) (edges g) -> ignores (F x) v.
Proof.
  intros Hx Hne He. eapply depends_only_ignores; [apply Fdep; exact Hx|].
  intros [E|Hp]; [congruence|]. apply In_parents in Hp. contradiction.
Qed.
Lemma jprod_ext_nodes L : incl L (nodes g) -> ext (jprod L).
Proof. intros Hi. apply jprod_ext. intros x Hx. apply F_ext. apply Hi. exact Hx. Qed.

(* D lists nodes of A that can be dropped one after the other, each being a leaf of what is left *)
Fixpoint barren_order (A D : list var) : Prop :=
  match D with
  | [] => True
  | x :: D' => In x A /\ (forall y, In y A -> y <> x -> ~ In (x, y) (edges g)) /\ barren_order (remv x A) D'
  end.

Theorem barren_sum (D : list var) : forall (A : list var) a,
  NoDup A -> NoDup D -> incl A (nodes g) -> barren_order A D -> valid a ->
  sum_over D (map card D) (jprod A) a = jprod (filter (fun y => negb (memn y D)) A) a.
Proof.
  induction D as [|x D IH]; intros A a HnA HnD HiA Hbo Ha.
  - cbn [map sum_over]. rewrite filter_all; [reflexivity|]. intros; reflexivity.
  - destruct Hbo as [HxA [Hleaf Hbo]]. inversion HnD as [|? ? HxD HnD']; subst.
    cbn [map]. rewrite (sum_over_cons R x D (card x) (map card D)).
    rewrite (sum_over_swap1 R D (map card D) x (card x) (jprod A) a (jprod_ext_nodes A HiA) HxD).
    transitivity (sum_over D (map card D) (jprod (remv x A)) a).
    + apply (sum_over_valid_ext R card D _ _ a Ha). intros b Hb.
      rewrite (sum_over_ext_fun R [x] [card x] (jprod A)
                 (fun z => mul (F x z) (jprod (remv x A) z)) b)
        by (intros z; apply jprod_remv; assumption).
      rewrite (sum_over_mul_r R [x] [card x] (jprod (remv x A)) (F x) b).
      * transitivity (mul one (jprod (remv x A) b)); [|apply mul_1_l].
        f_equal. exact (Fsum x (HiA x HxA) b Hb).
      * intros v [<-|[]]. apply jprod_ignores. intros y Hy. apply filter_In in Hy. destruct Hy as [Hy Hne].
        apply negb_true_iff, Nat.eqb_neq in Hne.
        apply F_ignores; [apply HiA; exact Hy|congruence|apply Hleaf; assumption].
      * intros c. apply all_ok.
    + assert (HiA' : incl (remv x A) (nodes g)).
      { intros z Hz. apply filter_In in Hz. apply HiA. apply Hz. }
      rewrite (IH (remv x A) a (NoDup_filter' _ A HnA) HnD' HiA' Hbo Ha).
      unfold remv. rewrite filter_filter. f_equal. apply filter_ext. intros z.
      cbn [memn existsb]. rewrite negb_orb. reflexivity.
Qed.

(* in a DAG the nodes outside an ancestor-closed set W can be enumerated leaf-first *)
Lemma leaf_order_exists (W : list var) : up_closed g W -> forall n (todo alive : list var),
  length todo = n -> NoDup todo -> incl todo alive -> incl alive (nodes g) ->
  (forall y, In y alive -> In y todo \/ In y W) -> (forall x, In x todo -> ~ In x W) ->
  exists D, Permutation D todo /\ barren_order alive D.
Proof.
  intros Hup. induction n as [|n IH]; intros todo alive Hl Hn Hin Hal Hcov HnW.
  - destruct todo; [|discriminate]. exists []. split; [constructor|exact I].
  - assert (Hne : todo <> []) by (intros ->; discriminate).
    destruct (exists_min (hdesc g) todo Hne) as [m [Hm Hmin]].
    pose proof (perm_remv m todo Hn Hm) as Hp.
    destruct (IH (remv m todo) (remv m alive)) as [D [HpD HbD]].
    + apply Permutation_length in Hp. simpl in Hp. lia.
    + apply NoDup_filter'. exact Hn.
    + intros z Hz. apply filter_In in Hz. destruct Hz as [Hz Hne']. apply filter_In. split; [apply Hin; exact Hz|exact Hne'].
    + intros z Hz. apply filter_In in Hz. apply Hal. apply Hz.
    + intros z Hz. apply filter_In in Hz. destruct Hz as [Hz Hne']. destruct (Hcov z Hz) as [H|H]; [|right; exact H].
      left. apply filter_In. split; assumption.
    + intros z Hz. apply filter_In in Hz. apply HnW. apply Hz.
    + exists (m :: D). split.
      * eapply Permutation_trans; [apply perm_skip; exact HpD|exact Hp].
      * cbn [barren_order]. split; [apply Hin; exact Hm|]. split; [|exact HbD].
        intros y Hy Hne' He. destruct (Hcov y Hy) as [Hyt|HyW].
        -- pose proof (hdesc_lt' g m y Hwf Hac He) as Hlt. specialize (Hmin y Hyt). lia.
        -- apply (HnW m Hm). apply (Hup m y He HyW).
Qed.

(* summing the joint over everything outside an ancestor-closed set leaves the product of the set *)
Theorem ancestral_sum (W : list var) a : up_closed g W -> valid a ->
  let NW := filter (fun x => negb (memn x W)) (nodes g) in
  sum_over NW (map card NW) (jprod (nodes g)) a = jprod (filter (fun x => memn x W) (nodes g)) a.
Proof.
  intros Hup Ha NW. destruct Hwf as [Hnd _].
  destruct (leaf_order_exists W Hup (length NW) NW (nodes g) eq_refl) as [D [HpD HbD]].
  - apply NoDup_filter'. exact Hnd.
  - intros x Hx. apply filter_In in Hx. apply Hx.
  - intros x Hx. exact Hx.
  - intros y Hy. destruct (memn y W) eqn:E; [right; apply memn_In; exact E|left].
    apply filter_In. split; [exact Hy|rewrite E; reflexivity].
  - intros x Hx. apply filter_In in Hx. destruct Hx as [_ Hx]. apply negb_true_iff, memn_false in Hx. exact Hx.
  - assert (HnD : NoDup D) by (eapply Permutation_NoDup; [apply Permutation_sym; exact HpD|apply NoDup_filter'; exact Hnd]).
    rewrite <- (sum_over_perm_g R card D NW HpD (jprod (nodes g)) a HnD (jprod_ext_nodes _ (fun x H => H))).
    rewrite (barren_sum D (nodes g) a Hnd HnD (fun x H => H) HbD Ha).
    f_equal. apply filter_ext_in. intros x Hx.
    destruct (memn x W) eqn:E.
    + apply negb_true_iff. apply memn_false. intros Hi. apply (Permutation_in _ HpD) in Hi.
      apply filter_In in Hi. destruct Hi as [_ Hi]. rewrite E in Hi. discriminate.
    + apply negb_false_iff. apply memn_In. apply (Permutation_in _ (Permutation_sym HpD)).
      apply filter_In. split; [exact Hx|rewrite E; reflexivity].
Qed.
End DAG.

(* ================================================================== C. what d-separation says about scopes *)
Section Scope.
Variable g : digraph.
Hypothesis Hwf : wf_graph g.
Variables X Z T : list node.             (* sources, observed, targets *)
Hypothesis HXn : forall x, In x X -> In x (nodes g).
Hypothesis HXZ : forall x, In x X -> ~ In x Z.

(* the unobserved nodes d-connected to some source given Z (pgmpy: union of active_trail_nodes) *)
Definition dcl : list node := flat_map (fun x => active_trail_nodes g x Z) X.

Lemma In_dcl v : In v dcl <-> ~ In v Z /\ exists x d, In x X /\ R g Z x (v, d).
Proof.
  unfold dcl. rewrite in_flat_map. split.
  - intros [x [Hx Hv]]. apply (atn_reach g Z x v Hwf (HXn x Hx)) in Hv. destruct Hv as [Hz [d Hd]].
    split; [exact Hz|]. exists x, d. tauto.
  - intros [Hz [x [d [Hx Hd]]]]. exists x. split; [exact Hx|].
    apply (atn_reach g Z x v Hwf (HXn x Hx)). split; [exact Hz|]. exists d. exact Hd.
Qed.

Lemma X_in_dcl x : In x X -> In x dcl.
Proof.
  intros Hx. apply In_dcl. split; [apply HXZ; exact Hx|]. exists x, Up. split; [exact Hx|].
  apply reach_src. left. reflexivity.
Qed.

(* a child of a d-connected node is d-connected or observed *)
Lemma dcl_child p v : In (p, v) (edges g) -> In p dcl -> ~ In v Z -> In v dcl.
Proof.
  intros He Hp Hv. apply In_dcl in Hp. destruct Hp as [HpZ [x [d [Hx HR]]]].
  apply In_dcl. split; [exact Hv|]. exists x, Down. split; [exact Hx|].
  eapply R_step; [exact HR|]. apply In_bb_next. destruct d; split; assumption.
Qed.

(* two parents of an observed node: d-connected together *)
Lemma dcl_coparent v p1 p2 : In v Z -> In (p1, v) (edges g) -> In (p2, v) (edges g) ->
  In p1 dcl -> ~ In p2 Z -> In p2 dcl.
Proof.
  intros Hv H1 H2 Hp Hz. apply In_dcl in Hp. destruct Hp as [HpZ [x [d [Hx HR]]]].
  apply In_dcl. split; [exact Hz|]. exists x, Up. split; [exact Hx|].
  assert (HRv : R g Z x (v, Down)).
  { eapply R_step; [exact HR|]. apply In_bb_next. destruct d; split; assumption. }
  eapply R_step; [exact HRv|]. apply In_bb_next. split; [|exact H2].
  apply anc_of_self; assumption.
Qed.

(* walking down a directed path that never meets an ancestor of Z *)
Lemma R_down v t : dpath g v t -> ~ In v (anc_of g Z) ->
  forall x d, R g Z x (v, d) -> (exists d', R g Z x (t, d')) /\ ~ In t (anc_of g Z).
Proof.
  intros Hp. revert v t Hp.
  apply (dpath_ind_left g (fun v t => ~ In v (anc_of g Z) ->
    forall x d, R g Z x (v, d) -> (exists d', R g Z x (t, d')) /\ ~ In t (anc_of g Z))).
  - intros u Hu x d HR. split; [exists d; exact HR|exact Hu].
  - intros u v w He _ IH Hu x d HR.
    assert (HuZ : ~ In u Z) by (intros H; apply Hu; apply anc_of_self; assumption).
    assert (Hv : ~ In v (anc_of g Z)).
    { intros H. apply Hu. exact (anc_of_up_closed g Z Hwf u v He H). }
    apply (IH Hv x Down). eapply R_step; [exact HR|]. apply In_bb_next. destruct d; split; assumption.
Qed.

(* ... and up again from its end *)
Lemma R_up v t : dpath g v t -> (forall w, dpath g v w -> ~ In w Z) -> R g Z t (v, Up).
Proof.
  intros Hp. revert v t Hp.
  apply (dpath_ind_left g (fun v t => (forall w, dpath g v w -> ~ In w Z) -> R g Z t (v, Up))).
  - intros u _. apply reach_src. left. reflexivity.
  - intros u v w He Hvw IH Hd.
    assert (HR : R g Z w (v, Up)).
    { apply IH. intros z Hz. apply Hd. eapply dpath_step_l; eassumption. }
    eapply R_step; [exact HR|]. apply In_bb_next. split; [|exact He].
    apply Hd. eapply dpath_step_l; [exact He|apply dpath_refl].
Qed.

Hypothesis HT : forall t, In t T -> In t X \/ In t Z \/ ~ In t dcl.
Definition W : list node := anc_of g T.

(* a parent of a d-connected ancestor of the targets is d-connected or observed *)
Lemma dcl_parent p v : In (p, v) (edges g) -> In v dcl -> In v W -> ~ In p Z -> In p dcl.
Proof.
  intros He Hv HvW HpZ. apply In_dcl in Hv. destruct Hv as [HvZ [x [d [Hx HR]]]].
  apply In_dcl. split; [exact HpZ|].
  destruct d.
  - exists x, Up. split; [exact Hx|]. eapply R_step; [exact HR|]. apply In_bb_next. split; assumption.
  - destruct (in_dec Nat.eq_dec v (anc_of g Z)) as [Ha|Ha].
    + exists x, Up. split; [exact Hx|]. eapply R_step; [exact HR|]. apply In_bb_next. split; assumption.
    + apply (anc_of_spec g T v Hwf) in HvW. destruct HvW as [t [Ht Hp]].
      destruct (R_down v t Hp Ha x Down HR) as [[d' HRt] HtA].
      assert (HtZ : ~ In t Z) by (intros H; apply HtA; apply anc_of_self; assumption).
      assert (Htd : In t dcl) by (apply In_dcl; split; [exact HtZ|]; exists x, d'; tauto).
      destruct (HT t Ht) as [HtX|[H|H]]; [|contradiction|contradiction].
      exists t, Up. split; [exact HtX|].
      assert (HRv : R g Z t (v, Up)).
      { apply R_up; [exact Hp|]. intros w Hw Hz. apply Ha. apply (anc_of_spec g Z v Hwf). exists w. tauto. }
      eapply R_step; [exact HRv|]. apply In_bb_next. split; assumption.
Qed.

(* every node of W is of one of two kinds *)
Definition typeA (v : node) : bool := existsb (fun u => memn u dcl) (v :: parents g v).

Theorem scope_A v : In v W -> typeA v = true -> forall u, In u (v :: parents g v) -> In u dcl \/ In u Z.
Proof.
  intros HvW Ht u Hu. unfold typeA in Ht. apply existsb_exists in Ht. destruct Ht as [u0 [Hu0 Hm]].
  apply memn_In in Hm.
  destruct (in_dec Nat.eq_dec u Z) as [HuZ|HuZ]; [right; exact HuZ|left].
  assert (Hcase : In v dcl \/ (~ In v dcl /\ In (u0, v) (edges g))).
  { destruct Hu0 as [<-|Hu0]; [left; exact Hm|]. apply In_parents in Hu0.
    destruct (in_dec Nat.eq_dec v dcl) as [H|H]; [left; exact H|right; tauto]. }
  destruct Hcase as [Hv|[Hv He0]].
  - destruct Hu as [<-|Hu]; [exact Hv|]. apply In_parents in Hu. exact (dcl_parent u v Hu Hv HvW HuZ).
  - destruct (in_dec Nat.eq_dec v Z) as [HvZ|HvZ].
    + destruct Hu as [<-|Hu]; [contradiction|]. apply In_parents in Hu.
      exact (dcl_coparent v u0 u HvZ He0 Hu Hm HuZ).
    + exfalso. apply Hv. exact (dcl_child u0 v He0 Hm HvZ).
Qed.

Theorem scope_B v : typeA v = false -> forall u, In u (v :: parents g v) -> ~ In u dcl.
Proof.
  intros Ht u Hu Hd. unfold typeA in Ht.
  assert (H : existsb (fun u => memn u dcl) (v :: parents g v) = true).
  { apply existsb_exists. exists u. split; [exact Hu|apply memn_In; exact Hd]. }
  congruence.
Qed.

Lemma W_up_closed : up_closed g W.
Proof. apply anc_of_up_closed. exact Hwf. Qed.
End Scope.

(* ================================================================== D. factorisation of the marginals *)
Section Factor.
Variable R : csr.
Hypothesis all_ok : forall x : R, ok x.
Variable card : var -> nat.
Variable g : digraph.
Variable F : var -> asg -> R.
Hypothesis Hwf : wf_graph g.
Hypothesis Hac : acyclic g.
Hypothesis Fdep : forall x, In x (nodes g) -> depends_only (F x) (x :: parents g x).
Hypothesis Fsum : forall x, In x (nodes g) -> forall a, valid card a -> sum_over [x] [card x] (F x) a = one.
Variables X Z T : list node.
Hypothesis HXn : forall x, In x X -> In x (nodes g).
Hypothesis HXZ : forall x, In x X -> ~ In x Z.
Hypothesis HT : forall t, In t T -> In t X \/ In t Z \/ ~ In t (dcl g X Z).

Notation valid := (valid card).
Notation jprod := (jprod R F).
Notation dcl := (dcl g X Z).
Notation W := (W g T).
Notation typeA := (typeA g X Z).

(* the marginal over S as a function of an assignment (only its values on S matter) *)
Definition marg (S : list var) (a : asg) : R :=
  let r := filter (fun v => negb (memn v S)) (nodes g) in sum_over r (map card r) (jprod (nodes g)) a.

Definition Wl : list var := filter (fun x => memn x W) (nodes g).
Definition LA : list var := filter typeA Wl.
Definition LB : list var := filter (fun x => negb (typeA x)) Wl.
Definition fA : asg -> R := jprod LA.
Definition fB : asg -> R := jprod LB.
Definition DS (S : list var) : list var := filter (fun v => memn v dcl && negb (memn v S)) Wl.
Definition NS (S : list var) : list var := filter (fun v => negb (memn v dcl) && negb (memn v S)) Wl.

Lemma In_Wl x : In x Wl <-> In x (nodes g) /\ In x W.
Proof. unfold Wl. rewrite filter_In, memn_In. tauto. Qed.
Lemma In_DS S x : In x (DS S) <-> In x (nodes g) /\ In x W /\ In x dcl /\ ~ In x S.
Proof. unfold DS. rewrite filter_In, In_Wl, andb_true_iff, negb_true_iff, memn_In, memn_false. tauto. Qed.
Lemma In_NS S x : In x (NS S) <-> In x (nodes g) /\ In x W /\ ~ In x dcl /\ ~ In x S.
Proof. unfold NS. rewrite filter_In, In_Wl, andb_true_iff, !negb_true_iff, !memn_false. tauto. Qed.
Lemma NoDup_Wl : NoDup Wl.
Proof. apply NoDup_filter'. apply Hwf. Qed.
Lemma Wl_nodes : incl Wl (nodes g).
Proof. intros x Hx. apply In_Wl in Hx. apply Hx. Qed.
Lemma LA_nodes : incl LA (nodes g).
Proof. intros x Hx. apply filter_In in Hx. apply Wl_nodes. apply Hx. Qed.
Lemma LB_nodes : incl LB (nodes g).
Proof. intros x Hx. apply filter_In in Hx. apply Wl_nodes. apply Hx. Qed.

Lemma fA_ext : ext fA.
Proof. apply jprod_ext. intros x Hx. eapply depends_only_ext. apply Fdep. apply LA_nodes. exact Hx. Qed.
Lemma fB_ext : ext fB.
Proof. apply jprod_ext. intros x Hx. eapply depends_only_ext. apply Fdep. apply LB_nodes. exact Hx. Qed.

Lemma fA_ignores v : ~ In v dcl -> ~ In v Z -> ignores fA v.
Proof.
  intros Hd Hz. apply jprod_ignores. intros x Hx. apply filter_In in Hx. destruct Hx as [Hx Ht].
  apply In_Wl in Hx. destruct Hx as [Hxn HxW].
  eapply depends_only_ignores; [apply Fdep; exact Hxn|]. intros Hv.
  destruct (scope_A g Hwf X Z T HXn HT x HxW Ht v Hv); contradiction.
Qed.
Lemma fB_ignores v : In v dcl -> ignores fB v.
Proof.
  intros Hd. apply jprod_ignores. intros x Hx. apply filter_In in Hx. destruct Hx as [Hx Ht].
  apply In_Wl in Hx. destruct Hx as [Hxn HxW]. apply negb_true_iff in Ht.
  eapply depends_only_ignores; [apply Fdep; exact Hxn|]. intros Hv.
  exact (scope_B g X Z x Ht v Hv Hd).
Qed.
Lemma fB_depends S : (forall s, In s S -> In s dcl \/ In s Z) -> depends_only fB (NS S ++ Z).
Proof.
  intros HS. apply jprod_depends. intros x Hx. apply filter_In in Hx. destruct Hx as [Hx Ht].
  apply In_Wl in Hx. destruct Hx as [Hxn HxW]. apply negb_true_iff in Ht.
  eapply depends_only_mono; [apply Fdep; exact Hxn|]. intros u Hu.
  pose proof (scope_B g X Z x Ht u Hu) as Hud.
  assert (Hun : In u (nodes g) /\ In u W).
  { destruct Hu as [<-|Hu]; [tauto|]. apply In_parents in Hu. split; [apply (proj2 Hwf u x Hu)|].
    exact (W_up_closed g Hwf T u x Hu HxW). }
  apply in_or_app. destruct (in_dec Nat.eq_dec u S) as [H|H].
  - right. destruct (HS u H); [contradiction|assumption].
  - left. apply In_NS. tauto.
Qed.
Lemma prod_Wl a : jprod Wl a = mul (fA a) (fB a).
Proof. apply jprod_filter_split. Qed.

(* every marginal over a set S between Z and W is a product alpha(S) * beta(S) *)
Theorem marg_factor (S : list var) a : incl Z S -> incl S W -> valid a ->
  marg S a = mul (sum_over (DS S) (map card (DS S)) fA a) (sum_over (NS S) (map card (NS S)) fB a).
Proof.
  intros HZS HSW Ha. unfold marg.
  set (r := filter (fun v => negb (memn v S)) (nodes g)).
  set (NW := filter (fun x => negb (memn x W)) (nodes g)).
  assert (Hnd : NoDup (nodes g)) by apply Hwf.
  assert (HdAB : forall v, In v (DS S) -> ~ In v (NS S)).
  { intros v Hv Hv'. apply In_DS in Hv. apply In_NS in Hv'. tauto. }
  assert (Hp : Permutation r ((DS S ++ NS S) ++ NW)).
  { apply NoDup_Permutation.
    - apply NoDup_filter'. exact Hnd.
    - apply NoDup_app'; [apply NoDup_app'; [apply NoDup_filter', NoDup_Wl|apply NoDup_filter', NoDup_Wl|exact HdAB]
                        |apply NoDup_filter'; exact Hnd|].
      intros x Hx Hx'. unfold NW in Hx'. rewrite filter_In, negb_true_iff, memn_false in Hx'.
      apply in_app_or in Hx. rewrite In_DS, In_NS in Hx. tauto.
    - intros x. unfold r, NW. rewrite !in_app_iff, In_DS, In_NS, !filter_In, !negb_true_iff, !memn_false. split.
      + intros [Hx HxS]. destruct (in_dec Nat.eq_dec x W) as [HW|HW]; [|right; tauto].
        left. destruct (in_dec Nat.eq_dec x dcl); tauto.
      + intros [[H|H]|[H1 H2]]; [tauto|tauto|]. split; [exact H1|]. intros H. apply H2. apply HSW. exact H. }
  rewrite (sum_over_perm_g R card _ _ Hp (jprod (nodes g)) a (NoDup_filter' _ _ Hnd)
             (jprod_ext_nodes R g F Fdep _ (fun x H => H))).
  rewrite map_app.
  rewrite (sum_over_app R (DS S ++ NS S) NW (map card (DS S ++ NS S)) (map card NW)) by (symmetry; apply map_length).
  rewrite (sum_over_valid_ext R card (DS S ++ NS S) _ (fun b => mul (fA b) (fB b)) a Ha).
  2:{ intros b Hb. rewrite <- prod_Wl.
      exact (ancestral_sum R all_ok card g F Hwf Hac Fdep Fsum W b (W_up_closed g Hwf T) Hb). }
  apply (sum_split R all_ok card (DS S) (NS S) fA fB a fA_ext fB_ext).
  - intros v Hv. apply In_NS in Hv. apply fA_ignores; [tauto|]. intros H. apply (proj2 (proj2 (proj2 Hv))). apply HZS. exact H.
  - intros v Hv. apply In_DS in Hv. apply fB_ignores. tauto.
  - exact HdAB.
Qed.
End Factor.

(* ================================================================== E. the global Markov property *)
Section GlobalMarkov.
Variable R : csr.
Hypothesis all_ok : forall x : R, ok x.
Variable card : var -> nat.
Variable g : digraph.
Variable F : var -> asg -> R.
Hypothesis Hwf : wf_graph g.
Hypothesis Hac : acyclic g.
Hypothesis Fdep : forall x, In x (nodes g) -> depends_only (F x) (x :: parents g x).
Hypothesis Fsum : forall x, In x (nodes g) -> forall a, valid card a -> sum_over [x] [card x] (F x) a = one.

Notation marg := (marg R card g F).

(* X _|_ Y | Z  (d-separation, path-based definition)  ==>  P(x,y,z) P(z) = P(x,z) P(y,z) *)
Theorem gmp (X Y Z : list node) a :
  (forall x, In x X -> In x (nodes g) /\ ~ In x Z) ->
  (forall y, In y Y -> ~ In y Z) ->
  (forall x y, In x X -> In y Y -> ~ dconnected g Z x y) ->
  valid card a ->
  mul (marg (X ++ Y ++ Z) a) (marg Z a) = mul (marg (X ++ Z) a) (marg (Y ++ Z) a).
Proof.
  intros HX HY Hsep Ha.
  pose (T := X ++ Y ++ Z).
  assert (HXn : forall x, In x X -> In x (nodes g)) by (intros x Hx; apply HX; exact Hx).
  assert (HXZ : forall x, In x X -> ~ In x Z) by (intros x Hx; apply HX; exact Hx).
  assert (HYd : forall y, In y Y -> ~ In y (dcl g X Z)).
  { intros y Hy Hd. apply (In_dcl g Hwf X Z HXn) in Hd. destruct Hd as [_ [x [d [Hx HR]]]].
    apply (Hsep x y Hx Hy). apply (R_iff_dconnected g Z x y Hwf Hac (HXZ x Hx)). exists d. exact HR. }
  assert (HT : forall t, In t T -> In t X \/ In t Z \/ ~ In t (dcl g X Z)).
  { intros t Ht. unfold T in Ht. rewrite !in_app_iff in Ht. destruct Ht as [H|[H|H]]; auto. }
  assert (HTW : incl T (W g T)) by (intros t Ht; apply anc_of_self; assumption).
  pose proof (marg_factor R all_ok card g F Hwf Hac Fdep Fsum X Z T HXn HT) as MF.
  assert (HdX : forall x, In x X -> In x (dcl g X Z)) by (apply X_in_dcl; assumption).
  assert (HdZ : forall z, In z Z -> ~ In z (dcl g X Z)).
  { intros z Hz Hd. apply (In_dcl g Hwf X Z HXn) in Hd. tauto. }
  rewrite (MF (X ++ Y ++ Z) a), (MF Z a), (MF (X ++ Z) a), (MF (Y ++ Z) a); try exact Ha;
    try (intros z Hz; rewrite ?in_app_iff; tauto);
    try (intros z Hz; apply HTW; unfold T; rewrite !in_app_iff in *; tauto).
  (* the four alpha / beta parts coincide pairwise *)
  assert (E1 : DS g X Z T (X ++ Y ++ Z) = DS g X Z T (X ++ Z)).
  { unfold DS. apply filter_ext_in. intros v _. destruct (memn v (dcl g X Z)) eqn:Ed; [|reflexivity].
    cbn [andb]. f_equal. apply memn_In in Ed. apply eq_true_iff_eq. rewrite !memn_In, !in_app_iff.
    split; [intros [H|[H|H]]; [tauto| |tauto]; exfalso; exact (HYd v H Ed)|tauto]. }
  assert (E2 : NS g X Z T (X ++ Y ++ Z) = NS g X Z T (Y ++ Z)).
  { unfold NS. apply filter_ext_in. intros v _. destruct (memn v (dcl g X Z)) eqn:Ed; [reflexivity|].
    cbn [negb andb]. f_equal. apply memn_false in Ed. apply eq_true_iff_eq. rewrite !memn_In, !in_app_iff.
    split; [intros [H|[H|H]]; [|tauto|tauto]; exfalso; exact (Ed (HdX v H))|tauto]. }
  assert (E3 : DS g X Z T (Y ++ Z) = DS g X Z T Z).
  { unfold DS. apply filter_ext_in. intros v _. destruct (memn v (dcl g X Z)) eqn:Ed; [|reflexivity].
    cbn [andb]. f_equal. apply memn_In in Ed. apply eq_true_iff_eq. rewrite !memn_In, !in_app_iff.
    split; [intros [H|H]; [|tauto]; exfalso; exact (HYd v H Ed)|tauto]. }
  assert (E4 : NS g X Z T (X ++ Z) = NS g X Z T Z).
  { unfold NS. apply filter_ext_in. intros v _. destruct (memn v (dcl g X Z)) eqn:Ed; [reflexivity|].
    cbn [negb andb]. f_equal. apply memn_false in Ed. apply eq_true_iff_eq. rewrite !memn_In, !in_app_iff.
    split; [intros [H|H]; [|tauto]; exfalso; exact (Ed (HdX v H))|tauto]. }
  rewrite E1, E2, E3, E4.
  set (aX := sum_over (DS g X Z T (X ++ Z)) _ _ a). set (bY := sum_over (NS g X Z T (Y ++ Z)) _ _ a).
  set (aa := sum_over (DS g X Z T Z) _ _ a). set (bb := sum_over (NS g X Z T Z) _ _ a).
  rewrite <- !(mul_assoc R). f_equal.
  rewrite !(mul_assoc R). rewrite (mul_comm R bY aa), (mul_comm R bb aa).
  rewrite <- !(mul_assoc R). f_equal. apply mul_comm.
Qed.
End GlobalMarkov.
