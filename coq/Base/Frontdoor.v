(* The front-door adjustment formula for every DAG of every size, over the rationals, from Base/Backdoor.v.

   Setting as in Base/Markov.v / Base/Backdoor.v: a well-formed DAG g, a family F of conditional distributions
   along g, P = marginals of their product, trunc .. x S = the truncated factorisation after do(x) summed over
   everything outside x :: S.  One intervened node x, one mediator m, outcome set Y.

   Hypotheses (pgmpy's is_valid_frontdoor_adjustment_set(x, y, [m]), read as statements):
     (i)   x is an ancestor of m, and m intercepts every directed path from x to an outcome
           (no directed path from x to y in the graph with m removed);
     (ii)  the empty set passes pgmpy's back-door test for (x, m): every parent of x is d-separated from m given x;
     (iii) {x} passes pgmpy's back-door test for (m, y): every parent of m is d-separated from y given m, x.

   frontdoor_adjustment:
       sum_m'  P(m', xv) / P(xv)  *  sum_x'  P(y, m', x') / P(m', x') * P(x')   =   P(y | do(x = xv))
   wherever P(xv) <> 0 and P(m', x') <> 0.

   Proof: (a) P(m | do x) = P(m | x) is back-door adjustment over the empty set; (b) the inner sum is back-door
   adjustment for do(m) over {x} (x is not a descendant of m by (i) and acyclicity);
   (c) P(y, m | do x) = P(m | do x) P(y | do m): in the do(x)-network, back-door for do(m) over {x} gives
   P(y, m | do x) = P(y | do x, do m) P(m | do x), and in the do(m)-network -- a valid family on the graph without
   the edges into m, where x has no directed path to m or y by (i) -- intervening on x does not change the
   marginal of (m, y). *)
From Coq Require Import List Bool Arith Lia PeanoNat Permutation QArith Qcanon.
From PV Require Import Base.Semiring Base.FinSum Base.Reach Base.Graph Base.RefFactor Base.Markov Base.Backdoor
  C08.Model C08.Spec C08.ProofsTrail C08.ProofsMisc.
Import ListNotations.
Local Close Scope Q_scope.
Local Open Scope nat_scope.

(* ------------------------------------------------------------------ directed paths and a cut node *)
Lemma dpath_split g m u v : dpath g u v -> u <> m -> dpath (remove_node g m) u v \/ dpath g u m.
Proof.
  intros H Hu. induction H as [u|u v w Huv IH He].
  - left. apply dpath_refl.
  - destruct (IH Hu) as [H1|H1]; [|right; exact H1].
    destruct (Nat.eq_dec w m) as [->|Hw]; [right; eapply dpath_step; eassumption|].
    destruct (Nat.eq_dec v m) as [->|Hv]; [right; exact Huv|].
    left. eapply dpath_step; [exact H1|]. apply remove_node_edges_In. tauto.
Qed.

Lemma dpath_cut_in g m u v : dpath (do_graph g [m]) u v -> u <> m -> dpath (remove_node g m) u v /\ v <> m.
Proof.
  intros H Hu. induction H as [u|u v w Huv IH He].
  - split; [apply dpath_refl|exact Hu].
  - destruct (IH Hu) as [H1 Hv]. apply do_graph_In in He. destruct He as [He Hw].
    assert (Hw' : w <> m) by (intros ->; apply Hw; left; reflexivity).
    split; [|exact Hw']. eapply dpath_step; [exact H1|]. apply remove_node_edges_In. tauto.
Qed.

Lemma acyclic_no_round g u v : acyclic g -> u <> v -> dpath g u v -> ~ dpath g v u.
Proof.
  intros Hac Hne Huv Hvu. destruct Huv as [u|u w v Huw He]; [congruence|].
  apply (Hac w v He). eapply dpath_trans; eassumption.
Qed.

Lemma filter_memn_nil (l : list node) : filter (fun v : node => memn v []) l = [].
Proof. induction l as [|v l IH]; [reflexivity|exact IH]. Qed.

Section Frontdoor.
Notation R := Qc_sum_csr.
Variable card : var -> nat.
Variable g : digraph.
Variable F : var -> asg -> Qc.
Hypothesis Hwf : wf_graph g.
Hypothesis Hac : acyclic g.
Hypothesis Fdep : forall v, In v (nodes g) -> @depends_only R (F v) (v :: parents g v).
Hypothesis Fsum : forall v, In v (nodes g) -> forall a, valid card a -> @sum_over R [v] [card v] (F v) a = 1%Qc.
Variables x m : node.
Variable xv : nat.
Variable Y : list node.
Hypothesis Hx : In x (nodes g).
Hypothesis Hm : In m (nodes g).
Hypothesis Hxm : x <> m.
Hypothesis Hxv : xv < card x.
Hypothesis HY : NoDup Y /\ forall y, In y Y -> In y (nodes g) /\ y <> x /\ y <> m.
(* (i) *)
Hypothesis Hanc : dpath g x m.
Hypothesis Hcut : forall y, In y Y -> ~ dpath (remove_node g m) x y.
(* (ii) is_valid_backdoor g x m [] *)
Hypothesis Hii : forallb (fun p => negb (is_dconnected g p m [x])) (parents g x) = true.
(* (iii) is_valid_backdoor g m y [x] *)
Hypothesis Hiii : forall y, In y Y -> forallb (fun p => negb (is_dconnected g p y [m; x])) (parents g m) = true.

Notation valid := (valid card).
Notation P := (marg R card g F).
Notation sumv vs := (@sum_over R vs (map card vs)).

Lemma okQ : forall q : R, ok q. Proof. intros q. exact I. Qed.

(* total mass of any family of conditional distributions along g *)
Lemma total_one (G : var -> asg -> Qc) a :
  (forall v, In v (nodes g) -> @depends_only R (G v) (v :: parents g v)) ->
  (forall v, In v (nodes g) -> forall b, valid b -> @sum_over R [v] [card v] (G v) b = 1%Qc) ->
  valid a -> marg R card g G (@nil node) a = 1%Qc.
Proof.
  intros Gd Gs Ha. unfold marg.
  pose proof (ancestral_sum R okQ card g G Hwf Hac Gd Gs [] a (fun u v _ H => H) Ha) as H. cbv zeta in H.
  etransitivity; [exact H|].
  rewrite filter_memn_nil. reflexivity.
Qed.

Lemma x_not_desc_m : ~ dpath g m x.
Proof. apply acyclic_no_round; assumption. Qed.

(* the graph of the do(m)-network: no edge into m *)
Definition gm : digraph := do_graph g [m].
Lemma gm_wf : wf_graph gm. Proof. apply wf_do_graph. exact Hwf. Qed.
Lemma gm_incl : incl (edges gm) (edges g).
Proof. intros [u v] H. apply do_graph_In in H. apply H. Qed.
Lemma gm_ac : acyclic gm. Proof. exact (acyclic_incl g gm Hac gm_incl). Qed.
Lemma gm_parents v u : In u (parents gm v) <-> In u (parents g v) /\ v <> m.
Proof.
  rewrite !In_parents. unfold gm. rewrite do_graph_In. cbn [In]. split.
  - intros [H1 H2]. split; [exact H1|]. intros ->. apply H2. left. reflexivity.
  - intros [H1 H2]. split; [exact H1|]. intros [E|[]]. apply H2. symmetry. exact E.
Qed.
Lemma gm_no_path v : v = m \/ In v Y -> ~ dpath gm x v.
Proof.
  intros Hv Hp. destruct (dpath_cut_in g m x v Hp Hxm) as [Hp' Hne]. destruct Hv as [->|Hv]; [congruence|].
  exact (Hcut v Hv Hp').
Qed.

Section AtValue.
Variable mv : nat.
Hypothesis Hmv : mv < card m.

Notation F1 := (Fdo R F x xv).           (* do(x = xv) *)
Notation F2 := (Fdo R F m mv).           (* do(m = mv) *)
Notation F12 := (Fdo R F2 x xv).
Notation F21 := (Fdo R F1 m mv).

Lemma F1_dep : forall v, In v (nodes g) -> @depends_only R (F1 v) (v :: parents g v).
Proof. apply Fdo_dep. exact Fdep. Qed.
Lemma F1_sum : forall v, In v (nodes g) -> forall a, valid a -> @sum_over R [v] [card v] (F1 v) a = 1%Qc.
Proof. exact (Fdo_sum R okQ card g F Fsum x xv Hxv). Qed.
Lemma F2_dep_gm : forall v, In v (nodes gm) -> @depends_only R (F2 v) (v :: parents gm v).
Proof.
  intros v Hv a b Hab. unfold Fdo. destruct (Nat.eqb v m) eqn:E.
  - apply Nat.eqb_eq in E. subst v. rewrite (Hab m (or_introl eq_refl)). reflexivity.
  - apply Nat.eqb_neq in E. apply (Fdep v Hv). intros u [<-|Hu]; [apply Hab; left; reflexivity|].
    apply Hab. right. apply gm_parents. tauto.
Qed.
Lemma F2_sum : forall v, In v (nodes g) -> forall a, valid a -> @sum_over R [v] [card v] (F2 v) a = 1%Qc.
Proof. exact (Fdo_sum R okQ card g F Fsum m mv Hmv). Qed.
Lemma F12_F21 v a : F12 v a = F21 v a.
Proof.
  unfold Fdo. destruct (Nat.eqb v x) eqn:E1, (Nat.eqb v m) eqn:E2; try reflexivity.
  apply Nat.eqb_eq in E1, E2. congruence.
Qed.
Lemma marg_F12_F21 S a : marg R card g F12 S a = marg R card g F21 S a.
Proof.
  unfold marg. apply (sum_over_ext_fun R). intros b. unfold jprod. f_equal. apply map_ext. intros v. apply F12_F21.
Qed.

(* (c): in the do(x)-network, fixing m cuts y loose from x *)
Lemma step_c b : valid b -> b x = xv -> b m = mv ->
  trunc R card g F x (Y ++ [m]) b = (trunc R card g F x [m] b * trunc R card g F m Y b)%Qc.
Proof.
  intros Hb Hbx Hbm.
  (* back-door for do(m) over {x} inside the do(x)-network *)
  pose proof (backdoor_product_test card g F1 Hwf Hac F1_dep F1_sum m mv Hm Hmv Y [x]) as BP.
  assert (HY1 : forall y, In y Y -> In y (nodes g) /\ ~ In y [m; x]).
  { intros y Hy. destruct (proj2 HY y Hy) as [H1 [H2 H3]]. split; [exact H1|]. intros [E|[E|[]]]; congruence. }
  assert (HZ1 : NoDup [x] /\ incl [x] (nodes g) /\ ~ In m [x]).
  { split; [constructor; [intros []|constructor]|]. split; [intros v [<-|[]]; exact Hx|]. intros [E|[]]. congruence. }
  specialize (BP HY1 HZ1 Hiii (fun z Hz => match Hz with or_introl E => eq_ind x (fun t => ~ dpath g m t) x_not_desc_m z E
                                                   | or_intror F0 => match F0 with end end) b Hb Hbm).
  (* the four terms *)
  assert (E1 : marg R card g F1 (Y ++ [m; x]) b = trunc R card g F x (Y ++ [m]) b).
  { rewrite <- (marg_do_is_trunc R card g F Hwf x xv Hx (Y ++ [m]) b Hb Hbx). apply marg_set_ext.
    intros v. cbn [In]. rewrite !in_app_iff. cbn [In]. tauto. }
  assert (E2 : marg R card g F1 [x] b = 1%Qc).
  { transitivity (marg R card g F1 [] b); [|exact (total_one F1 b F1_dep F1_sum Hb)]. symmetry.
    etransitivity; [exact (marg_do_sum_x R okQ card g F Hwf Fdep x xv Hx Hxv [] b Hb (fun H => H))|].
    unfold marg. apply (sum_over_aeq R).
    - apply jprod_ext. intros v Hv. eapply depends_only_ext. apply F1_dep. exact Hv.
    - rewrite <- Hbx. apply upd_id. }
  assert (E3 : marg R card g F1 [m; x] b = trunc R card g F x [m] b).
  { rewrite <- (marg_do_is_trunc R card g F Hwf x xv Hx [m] b Hb Hbx). apply marg_set_ext.
    intros v. cbn [In]. tauto. }
  assert (E4 : trunc R card g F1 m (Y ++ [x]) b = trunc R card g F m Y b).
  { rewrite <- (marg_do_is_trunc R card g F1 Hwf m mv Hm (Y ++ [x]) b Hb Hbm).
    rewrite <- marg_F12_F21.
    transitivity (marg R card g F12 (x :: m :: Y) b).
    { apply marg_set_ext. intros v. cbn [In]. rewrite !in_app_iff. cbn [In]. tauto. }
    (* sum the point mass of x back in, then undo the intervention on x inside the do(m)-network *)
    assert (HxS : ~ In x (m :: Y)).
    { intros [E|Hi]; [congruence|]. destruct (proj2 HY x Hi) as [_ [H _]]. congruence. }
    assert (F2_dep_g : forall v, In v (nodes g) -> @depends_only R (F2 v) (v :: parents g v))
      by (apply Fdo_dep; exact Fdep).
    transitivity (marg R card g F12 (m :: Y) b).
    { symmetry. etransitivity; [exact (marg_do_sum_x R okQ card g F2 Hwf F2_dep_g x xv Hx Hxv (m :: Y) b Hb HxS)|].
      unfold marg. apply (sum_over_aeq R).
      - apply jprod_ext. intros v Hv. eapply depends_only_ext. apply (Fdo_dep R g F2 F2_dep_g x xv). exact Hv.
      - rewrite <- Hbx. apply upd_id. }
    change (marg R card gm F12 (m :: Y) b = trunc R card g F m Y b).
    rewrite (do_nondescendants R okQ card gm F2 gm_wf gm_ac F2_dep_gm F2_sum x xv Hxv (m :: Y) b).
    - change (marg R card g F2 (m :: Y) b = trunc R card g F m Y b).
      apply (marg_do_is_trunc R card g F Hwf m mv Hm Y b Hb Hbm).
    - intros z [<-|Hz]; apply gm_no_path; tauto.
    - exact Hb. }
  rewrite E1, E2, E3, E4 in BP. rewrite Qcmult_1_r in BP. rewrite BP. apply Qcmult_comm.
Qed.
End AtValue.

Definition inner (c : asg) : Qc := (P (Y ++ [m; x]) c / P [m; x] c * P [x] c)%Qc.
Definition term (b : asg) : Qc := (P [m; x] b / P [x] b * sumv [x] inner b)%Qc.

(* FRONT-DOOR ADJUSTMENT *)
Theorem frontdoor_adjustment a : valid a -> a x = xv ->
  (forall b, valid b -> b x = xv -> P [x] b <> 0%Qc) ->
  (forall b, valid b -> P [m; x] b <> 0%Qc) ->
  sumv [m] term a = trunc R card g F x Y a.
Proof.
  intros Ha Hax Hpx Hpmx.
  assert (HYm : forall y, In y Y -> In y (nodes g) /\ ~ In y [m; x]).
  { intros y Hy. destruct (proj2 HY y Hy) as [H1 [H2 H3]]. split; [exact H1|]. intros [E|[E|[]]]; congruence. }
  assert (HZx : NoDup [x] /\ incl [x] (nodes g) /\ ~ In m [x]).
  { split; [constructor; [intros []|constructor]|]. split; [intros v [<-|[]]; exact Hx|]. intros [E|[]]. congruence. }
  transitivity (sumv [m] (trunc R card g F x (Y ++ [m])) a).
  - apply (sum_over_ext_on R card); [exact Ha|]. intros b Hb Hag.
    assert (Hbx : b x = xv) by (rewrite Hag; [exact Hax|intros [E|[]]; congruence]).
    rewrite (step_c (b m) (Hb m) b Hb Hbx eq_refl). unfold term. f_equal.
    + (* (a) back-door over the empty set for (x, m) *)
      pose proof (backdoor_adjustment card g F Hwf Hac Fdep Fsum x xv Hx Hxv [m] []) as BA.
      assert (H1 : forall y, In y [m] -> In y (nodes g) /\ ~ In y [x]).
      { intros y [<-|[]]. split; [exact Hm|]. intros [E|[]]. congruence. }
      assert (H2 : NoDup (@nil node) /\ incl [] (nodes g) /\ ~ In x []).
      { split; [constructor|]. split; [intros v []|intros []]. }
      specialize (BA H1 H2 (fun y Hy => match Hy with or_introl E => eq_ind m (fun t => forallb (fun p => negb (is_dconnected g p t [x])) (parents g x) = true) Hii y E
                                               | or_intror F0 => match F0 with end end)
                     (fun z Hz => match Hz with end) b Hb Hbx (fun c Hc Hcx => Hpx c Hc Hcx)).
      cbn [sum_over map app] in BA. rewrite (total_one F b Fdep Fsum Hb), Qcmult_1_r in BA. exact BA.
    + (* (b) back-door over {x} for (m, Y) *)
      exact (backdoor_adjustment card g F Hwf Hac Fdep Fsum m (b m) Hm (Hb m) Y [x] HYm HZx Hiii
               (fun z Hz => match Hz with or_introl E => eq_ind x (fun t => ~ dpath g m t) x_not_desc_m z E
                                        | or_intror F0 => match F0 with end end)
               b Hb eq_refl (fun c Hc _ => Hpmx c Hc)).
  - unfold trunc.
    change (sumv [m] (gmarg R card g (jprod R F (remv x (nodes g))) (x :: Y ++ [m])) a =
            gmarg R card g (jprod R F (remv x (nodes g))) (x :: Y) a).
    rewrite <- (gmarg_sum_out R card g (proj1 Hwf) (jprod R F (remv x (nodes g))) [m] (x :: Y) a).
    + apply (sum_over_ext_fun R). intros b. apply gmarg_set_ext. intros v. cbn [In app]. rewrite !in_app_iff. cbn [In]. tauto.
    + apply jprod_ext. intros v Hv. apply filter_In in Hv. eapply depends_only_ext. apply Fdep. apply Hv.
    + constructor; [intros []|constructor].
    + intros v [<-|[]]. exact Hm.
    + intros v [<-|[]] [E|Hi]; [congruence|]. destruct (proj2 HY m Hi) as [_ [_ H]]. congruence.
Qed.
End Frontdoor.
