(* The back-door adjustment theorem in product form, for every DAG and any commutative semiring, from the
   factorisation theorem of Base/Markov.v.

   [Fdo]: the potentials of the network after do(x = xv): the CPD of x is replaced by the point mass at xv (same
   graph: a point mass looks at no parent).  [trunc S]: the truncated factorisation (product of all CPDs but x's,
   x read from the assignment) summed over every node outside x :: S.

     marg_do_is_trunc     P_do(x = xv, s) = truncated factorisation
     do_nondescendants    intervening on x leaves the marginal of non-descendants of x unchanged
     do_invariance        if every parent of x is d-separated from Y given x :: Z (pgmpy's own
                          is_valid_backdoor_adjustment_set test), then
                          P(y,x,z) P_do(x,z) = P_do(y,x,z) P(x,z)
     backdoor_product     ... and no node of Z is a descendant of x:   P(y,x,z) P(z) = trunc(y,z) P(x,z)  at x = xv,
                          i.e.  sum_z P(y | x, z) P(z) = P(y | do(x))  wherever P(x,z) <> 0 *)
From Coq Require Import List Bool Arith Lia PeanoNat Permutation QArith Qcanon.
From PV Require Import Base.Semiring Base.FinSum Base.Reach Base.Graph Base.RefFactor Base.Markov
  C08.Model C08.Spec C08.ProofsTrail C08.ProofsMisc.
Import ListNotations.
Local Close Scope Q_scope.
Local Open Scope nat_scope.

Section SumFacts.
Variable R : csr.
Hypothesis all_ok : forall x : R, ok x.
Variable card : var -> nat.
Notation valid := (valid card).

Lemma sum_list_zeros {A} (f : A -> R) l : (forall i, In i l -> f i = zero) -> sum_list (map f l) = zero.
Proof.
  induction l as [|i l IH]; intros H; [reflexivity|]. cbn [map sum_list fold_right].
  rewrite (H i (or_introl eq_refl)). fold (sum_list (map f l)). rewrite IH by (intros j Hj; apply H; right; exact Hj).
  apply add_0_l. apply ok_zero.
Qed.
Lemma sum_list_delta (f : nat -> R) (l : list nat) k : NoDup l -> In k l ->
  (forall i, In i l -> i <> k -> f i = zero) -> sum_list (map f l) = f k.
Proof.
  induction l as [|i l IH]; intros Hn Hk Hz; [destruct Hk|]. inversion Hn as [|? ? Hi Hn']; subst.
  cbn [map sum_list fold_right]. fold (sum_list (map f l)). destruct Hk as [->|Hk].
  - rewrite sum_list_zeros; [apply add_0_r; apply all_ok|].
    intros j Hj. apply Hz; [right; exact Hj|]. intros ->. contradiction.
  - rewrite (Hz i (or_introl eq_refl)) by (intros ->; contradiction).
    rewrite (IH Hn' Hk) by (intros j Hj; apply Hz; right; exact Hj). apply add_0_l. apply all_ok.
Qed.

(* two summands that agree wherever the unsummed variables are as in the outer assignment *)
Lemma sum_over_ext_on vs : forall (f h : asg -> R) a, valid a ->
  (forall b, valid b -> (forall u, ~ In u vs -> b u = a u) -> f b = h b) ->
  sum_over vs (map card vs) f a = sum_over vs (map card vs) h a.
Proof.
  induction vs as [|v vs IH]; intros f h a Ha H.
  - apply H; [exact Ha|reflexivity].
  - cbn [map sum_over]. apply sum_list_ext. intros i Hi. apply in_seq in Hi.
    apply IH; [apply valid_upd; [exact Ha|lia]|]. intros b Hb Hag. apply H; [exact Hb|].
    intros u Hu. rewrite Hag by (intros Hi'; apply Hu; right; exact Hi').
    apply upd_other. intros E. apply Hu. left. symmetry. exact E.
Qed.
End SumFacts.

Section MargAnc.
Variable R : csr.
Hypothesis all_ok : forall x : R, ok x.
Variable card : var -> nat.
Variable g : digraph.
Variable F : var -> asg -> R.
Hypothesis Hwf : wf_graph g.
Hypothesis Hac : acyclic g.
Hypothesis Fdep : forall x, In x (nodes g) -> depends_only (F x) (x :: parents g x).
Hypothesis Fsum : forall x, In x (nodes g) -> forall a, valid card a -> sum_over [x] [card x] (F x) a = one.

(* a marginal over S can be computed inside any ancestor-closed set that contains S *)
Theorem marg_ancestral (W S : list var) a : up_closed g W -> incl S W -> valid card a ->
  let Wl := filter (fun v => memn v W) (nodes g) in
  let r := filter (fun v => negb (memn v S)) Wl in
  marg R card g F S a = sum_over r (map card r) (jprod R F Wl) a.
Proof.
  intros Hup HSW Ha Wl r. unfold marg.
  set (r0 := filter (fun v => negb (memn v S)) (nodes g)).
  set (NW := filter (fun v => negb (memn v W)) (nodes g)).
  assert (Hnd : NoDup (nodes g)) by apply Hwf.
  assert (Hp : Permutation r0 (r ++ NW)).
  { apply NoDup_Permutation.
    - apply NoDup_filter'. exact Hnd.
    - apply NoDup_app'; [apply NoDup_filter', NoDup_filter'; exact Hnd|apply NoDup_filter'; exact Hnd|].
      intros v Hv Hv'. unfold r, Wl in Hv. unfold NW in Hv'. rewrite !filter_In, memn_In in Hv.
      rewrite filter_In, negb_true_iff, memn_false in Hv'. tauto.
    - intros v. unfold r0, r, Wl, NW. rewrite in_app_iff, !filter_In, !negb_true_iff, !memn_false, memn_In. split.
      + intros [H1 H2]. destruct (in_dec Nat.eq_dec v W); tauto.
      + intros [[[H1 H2] H3]|[H1 H2]]; [tauto|]. split; [exact H1|]. intros H. apply H2. apply HSW. exact H. }
  rewrite (sum_over_perm_g R card _ _ Hp (jprod R F (nodes g)) a (NoDup_filter' _ _ Hnd)
             (jprod_ext_nodes R g F Fdep _ (fun v H => H))).
  rewrite map_app. rewrite (sum_over_app R r NW (map card r) (map card NW)) by (symmetry; apply map_length).
  apply (sum_over_valid_ext R card r _ _ a Ha). intros b Hb.
  exact (ancestral_sum R all_ok card g F Hwf Hac Fdep Fsum W b Hup Hb).
Qed.
End MargAnc.

Section Backdoor.
Variable R : csr.
Hypothesis all_ok : forall x : R, ok x.
Variable card : var -> nat.
Variable g : digraph.
Variable F : var -> asg -> R.
Hypothesis Hwf : wf_graph g.
Hypothesis Hac : acyclic g.
Hypothesis Fdep : forall x, In x (nodes g) -> depends_only (F x) (x :: parents g x).
Hypothesis Fsum : forall x, In x (nodes g) -> forall a, valid card a -> sum_over [x] [card x] (F x) a = one.
Variable x : node.
Variable xv : nat.
Hypothesis Hx : In x (nodes g).
Hypothesis Hxv : xv < card x.

Notation valid := (valid card).
Notation sumv vs := (sum_over vs (map card vs)).

(* the network after do(x = xv) *)
Definition Fdo (v : var) (a : asg) : R :=
  if Nat.eqb v x then (if Nat.eqb (a x) xv then one else zero) else F v a.

Lemma Fdo_other v a : v <> x -> Fdo v a = F v a.
Proof. intros H. unfold Fdo. apply Nat.eqb_neq in H. rewrite H. reflexivity. Qed.
Lemma Fdo_x a : Fdo x a = if Nat.eqb (a x) xv then one else zero.
Proof. unfold Fdo. rewrite Nat.eqb_refl. reflexivity. Qed.

Lemma Fdo_dep : forall v, In v (nodes g) -> depends_only (Fdo v) (v :: parents g v).
Proof.
  intros v Hv a b Hab. unfold Fdo. destruct (Nat.eqb v x) eqn:E.
  - apply Nat.eqb_eq in E. subst v. rewrite (Hab x (or_introl eq_refl)). reflexivity.
  - apply (Fdep v Hv). exact Hab.
Qed.
Lemma Fdo_sum : forall v, In v (nodes g) -> forall a, valid a -> sum_over [v] [card v] (Fdo v) a = one.
Proof.
  intros v Hv a Ha. destruct (Nat.eq_dec v x) as [->|Hne].
  - cbn [sum_over].
    rewrite (sum_list_delta R all_ok (fun i => Fdo x (upd a x i)) (seq 0 (card x)) xv).
    + rewrite Fdo_x, upd_same, Nat.eqb_refl. reflexivity.
    + apply seq_NoDup.
    + apply in_seq. lia.
    + intros i _ Hi. rewrite Fdo_x, upd_same. apply Nat.eqb_neq in Hi. rewrite Hi. reflexivity.
  - rewrite <- (Fsum v Hv a Ha). apply (sum_over_ext_fun R). intros b. apply Fdo_other. exact Hne.
Qed.

Notation margF := (marg R card g F).
Notation margD := (marg R card g Fdo).

(* the truncated factorisation, summed over everything outside x :: S *)
Definition trunc (S : list var) (a : asg) : R :=
  let r := filter (fun v => negb (memn v (x :: S))) (nodes g) in
  sum_over r (map card r) (jprod R F (remv x (nodes g))) a.

Theorem marg_do_is_trunc S a : valid a -> a x = xv -> margD (x :: S) a = trunc S a.
Proof.
  intros Ha Hax. unfold marg, trunc. apply (sum_over_ext_on R card); [exact Ha|]. intros b Hb Hag.
  rewrite (jprod_remv R Fdo x (nodes g) b (proj1 Hwf) Hx).
  rewrite Fdo_x. rewrite Hag, Hax, Nat.eqb_refl.
  - rewrite mul_1_l. unfold jprod. f_equal. apply map_ext_in. intros v Hv. apply Fdo_other.
    apply filter_In in Hv. destruct Hv as [_ Hv]. apply negb_true_iff, Nat.eqb_neq in Hv. exact Hv.
  - intros Hi. apply filter_In in Hi. destruct Hi as [_ Hi]. cbn [memn existsb] in Hi. rewrite Nat.eqb_refl in Hi. discriminate.
Qed.

(* summing the point mass out *)
Theorem marg_do_sum_x S a : valid a -> ~ In x S -> margD S a = margD (x :: S) (upd a x xv).
Proof.
  intros Ha HxS. unfold marg.
  set (r := filter (fun v => negb (memn v S)) (nodes g)).
  set (r' := filter (fun v => negb (memn v (x :: S))) (nodes g)).
  assert (Hnd : NoDup (nodes g)) by apply Hwf.
  assert (Hxr : In x r) by (apply filter_In; split; [exact Hx|apply negb_true_iff, memn_false; exact HxS]).
  assert (Er : r' = remv x r).
  { unfold r', r, remv. rewrite filter_filter. apply filter_ext. intros v. cbn [memn existsb].
    rewrite negb_orb. apply andb_comm. }
  assert (Hext : ext (jprod R Fdo (nodes g))).
  { apply jprod_ext. intros v Hv. eapply depends_only_ext. apply Fdo_dep. exact Hv. }
  rewrite <- (sum_over_perm_g R card (x :: r') r) ; [| rewrite Er; apply perm_remv; [apply NoDup_filter'; exact Hnd|exact Hxr]
                                                     | |exact Hext].
  2:{ constructor; [|apply NoDup_filter'; exact Hnd]. intros Hi. apply filter_In in Hi. destruct Hi as [_ Hi].
      cbn [memn existsb] in Hi. rewrite Nat.eqb_refl in Hi. discriminate. }
  cbn [map sum_over].
  rewrite (sum_list_delta R all_ok (fun i => sum_over r' (map card r') (jprod R Fdo (nodes g)) (upd a x i)) (seq 0 (card x)) xv).
  - reflexivity.
  - apply seq_NoDup.
  - apply in_seq. lia.
  - intros i Hi Hne. apply in_seq in Hi.
    transitivity (@sum_over R r' (map card r') (fun _ => zero) (upd a x i)).
    + apply (sum_over_ext_on R card); [apply valid_upd; [exact Ha|lia]|]. intros b Hb Hag.
      apply (jprod_zero R Fdo (nodes g) x b Hx). rewrite Fdo_x, Hag, upd_same.
      * apply Nat.eqb_neq in Hne. rewrite Hne. reflexivity.
      * intros Hi'. apply filter_In in Hi'. destruct Hi' as [_ Hi']. cbn [memn existsb] in Hi'.
        rewrite Nat.eqb_refl in Hi'. discriminate.
    + clear. generalize (upd a x i). induction r' as [|v vs IH]; intros c; [reflexivity|].
      cbn [map sum_over]. apply sum_list_zeros. intros j _. apply IH.
Qed.

(* intervening on x does not change the marginal of a set of non-descendants of x *)
Theorem do_nondescendants Z a : (forall z, In z Z -> ~ dpath g x z) -> valid a -> margD Z a = margF Z a.
Proof.
  intros Hnd Ha.
  assert (HxW : ~ In x (anc_of g Z)).
  { intros H. apply (anc_of_spec g Z x Hwf) in H. destruct H as [z [Hz Hp]]. exact (Hnd z Hz Hp). }
  assert (HZW : incl Z (anc_of g Z)) by (intros z Hz; apply anc_of_self; assumption).
  rewrite (marg_ancestral R all_ok card g Fdo Hwf Hac Fdo_dep Fdo_sum (anc_of g Z) Z a (anc_of_up_closed g Z Hwf) HZW Ha).
  rewrite (marg_ancestral R all_ok card g F Hwf Hac Fdep Fsum (anc_of g Z) Z a (anc_of_up_closed g Z Hwf) HZW Ha).
  apply (sum_over_ext_fun R). intros b. unfold jprod. f_equal. apply map_ext_in. intros v Hv.
  apply Fdo_other. intros ->. apply filter_In in Hv. destruct Hv as [_ Hv]. apply memn_In in Hv. contradiction.
Qed.

Lemma marg_set_ext (G : var -> asg -> R) S S' a : (forall v, In v S <-> In v S') -> marg R card g G S a = marg R card g G S' a.
Proof.
  intros H. unfold marg.
  assert (E : filter (fun v => negb (memn v S)) (nodes g) = filter (fun v => negb (memn v S')) (nodes g)).
  { apply filter_ext. intros v. f_equal. apply eq_true_iff_eq. rewrite !memn_In. apply H. }
  rewrite E. reflexivity.
Qed.

Variables Y Z : list node.
Hypothesis HY : forall y, In y Y -> In y (nodes g) /\ ~ In y (x :: Z).
(* pgmpy's is_valid_backdoor_adjustment_set: every parent of x is d-separated from Y given x :: Z *)
Hypothesis Hbd : forall p y, In (p, x) (edges g) -> In y Y -> ~ In p (x :: Z) -> ~ dconnected g (x :: Z) y p.

Lemma x_typeB : typeA g Y (x :: Z) x = false.
Proof.
  assert (HXn : forall y, In y Y -> In y (nodes g)) by (intros y Hy; apply HY; exact Hy).
  unfold typeA. destruct (existsb (fun u => memn u (dcl g Y (x :: Z))) (x :: parents g x)) eqn:E; [|reflexivity].
  exfalso. apply existsb_exists in E. destruct E as [u [Hu Hm]]. apply memn_In in Hm.
  apply (In_dcl g Hwf Y (x :: Z) HXn) in Hm. destruct Hm as [HuZ [y [d [Hy HR]]]].
  destruct Hu as [<-|Hu]; [apply HuZ; left; reflexivity|]. apply In_parents in Hu.
  apply (Hbd u y Hu Hy HuZ). apply (R_iff_dconnected g (x :: Z) y u Hwf Hac (proj2 (HY y Hy))). exists d. exact HR.
Qed.

(* conditioning on x and Z makes Y insensitive to how x came about *)
Theorem do_invariance a : valid a ->
  mul (margF (Y ++ x :: Z) a) (margD (x :: Z) a) = mul (margD (Y ++ x :: Z) a) (margF (x :: Z) a).
Proof.
  intros Ha. set (Zo := x :: Z). set (T := Y ++ Zo).
  assert (HXn : forall y, In y Y -> In y (nodes g)) by (intros y Hy; apply HY; exact Hy).
  assert (HXZ : forall y, In y Y -> ~ In y Zo) by (intros y Hy; apply HY; exact Hy).
  assert (HT : forall t, In t T -> In t Y \/ In t Zo \/ ~ In t (dcl g Y Zo)).
  { intros t Ht. apply in_app_or in Ht. tauto. }
  assert (HTW : incl T (W g T)) by (intros t Ht; apply anc_of_self; assumption).
  pose proof (marg_factor R all_ok card g F Hwf Hac Fdep Fsum Y Zo T HXn HT) as MF.
  pose proof (marg_factor R all_ok card g Fdo Hwf Hac Fdo_dep Fdo_sum Y Zo T HXn HT) as MD.
  assert (I1 : incl Zo T) by (intros v Hv; apply in_or_app; right; exact Hv).
  assert (I2 : incl Zo (W g T)) by (intros v Hv; apply HTW, I1; exact Hv).
  fold Zo. fold T.
  rewrite (MF T a I1 HTW Ha), (MD Zo a (fun v H => H) I2 Ha), (MD T a I1 HTW Ha), (MF Zo a (fun v H => H) I2 Ha).
  assert (EA : forall b, fA R g Fdo Y Zo T b = fA R g F Y Zo T b).
  { intros b. unfold fA, jprod. f_equal. apply map_ext_in. intros v Hv. apply Fdo_other. intros ->.
    apply filter_In in Hv. destruct Hv as [_ Hv]. pose proof x_typeB as HB. fold Zo in HB. congruence. }
  assert (EN : NS g Y Zo T T = NS g Y Zo T Zo).
  { unfold NS. apply filter_ext_in. intros v _. destruct (memn v (dcl g Y Zo)) eqn:Ed; [reflexivity|].
    cbn [negb andb]. f_equal. apply memn_false in Ed. apply eq_true_iff_eq. rewrite !memn_In. unfold T. rewrite in_app_iff.
    split; [intros [H|H]; [|exact H]; exfalso; apply Ed; apply (X_in_dcl g Hwf Y Zo HXn HXZ); exact H|tauto]. }
  rewrite EN.
  rewrite (sum_over_ext_fun R (DS g Y Zo T Zo) _ (fA R g Fdo Y Zo T) (fA R g F Y Zo T) a EA).
  rewrite (sum_over_ext_fun R (DS g Y Zo T T) _ (fA R g Fdo Y Zo T) (fA R g F Y Zo T) a EA).
  set (p := sum_over (DS g Y Zo T T) _ (fA R g F Y Zo T) a).
  set (r := sum_over (DS g Y Zo T Zo) _ (fA R g F Y Zo T) a).
  set (q := sum_over (NS g Y Zo T Zo) _ (fB R g F Y Zo T) a).
  set (s := sum_over (NS g Y Zo T Zo) _ (fB R g Fdo Y Zo T) a).
  rewrite <- !(mul_assoc R). f_equal.
  rewrite !(mul_assoc R). rewrite (mul_comm R q r), (mul_comm R s r).
  rewrite <- !(mul_assoc R). f_equal. apply mul_comm.
Qed.

(* BACK-DOOR ADJUSTMENT in product form:  P(y, x, z) P(z) = P_do(x)(y, z) P(x, z)   at x = xv *)
Theorem backdoor_product a :
  (forall z, In z Z -> ~ dpath g x z) -> ~ In x Z -> valid a -> a x = xv ->
  mul (margF (Y ++ x :: Z) a) (margF Z a) = mul (trunc (Y ++ Z) a) (margF (x :: Z) a).
Proof.
  intros Hnd HxZ Ha Hax.
  rewrite <- (do_nondescendants Z a Hnd Ha).
  assert (E1 : margD Z a = margD (x :: Z) a).
  { rewrite (marg_do_sum_x Z a Ha HxZ). unfold marg. apply sum_over_aeq.
    - apply jprod_ext. intros v Hv. eapply depends_only_ext. apply Fdo_dep. exact Hv.
    - rewrite <- Hax. apply upd_id. }
  rewrite E1. rewrite (do_invariance a Ha). f_equal.
  rewrite <- (marg_do_is_trunc (Y ++ Z) a Ha Hax). apply marg_set_ext. intros v.
  cbn [In]. rewrite !in_app_iff. cbn [In]. tauto.
Qed.
End Backdoor.

(* ---- summing a marginal further down ----------------------------------------------------------------- *)
Section SumOut.
Variable R : csr.
Variable card : var -> nat.
Variable g : digraph.
Hypothesis Hnd : NoDup (nodes g).

(* sum of an arbitrary extensional function over the nodes outside S *)
Definition gmarg (G : asg -> R) (S : list var) (a : asg) : R :=
  let r := filter (fun v => negb (memn v S)) (nodes g) in sum_over r (map card r) G a.

Lemma gmarg_sum_out (G : asg -> R) (Y S : list var) a : ext G -> NoDup Y -> incl Y (nodes g) ->
  (forall y, In y Y -> ~ In y S) ->
  sum_over Y (map card Y) (gmarg G (Y ++ S)) a = gmarg G S a.
Proof.
  intros HG HY HYn HYS. unfold gmarg.
  set (r := filter (fun v => negb (memn v (Y ++ S))) (nodes g)).
  set (r0 := filter (fun v => negb (memn v S)) (nodes g)).
  rewrite <- (sum_over_app R Y r (map card Y) (map card r)) by (symmetry; apply map_length).
  rewrite <- map_app. apply (sum_over_perm_g R card (Y ++ r) r0); [| |exact HG].
  - apply NoDup_Permutation.
    + apply NoDup_app'; [exact HY|apply NoDup_filter'; exact Hnd|]. intros v Hv Hv'.
      apply filter_In in Hv'. destruct Hv' as [_ Hv']. apply negb_true_iff, memn_false in Hv'. apply Hv'.
      apply in_or_app. left. exact Hv.
    + apply NoDup_filter'. exact Hnd.
    + intros v. unfold r, r0. rewrite in_app_iff, !filter_In, !negb_true_iff, !memn_false, in_app_iff. split.
      * intros [Hv|[H1 H2]]; [split; [apply HYn; exact Hv|apply HYS; exact Hv]|tauto].
      * intros [H1 H2]. destruct (in_dec Nat.eq_dec v Y); tauto.
  - apply NoDup_app'; [exact HY|apply NoDup_filter'; exact Hnd|]. intros v Hv Hv'.
    apply filter_In in Hv'. destruct Hv' as [_ Hv']. apply negb_true_iff, memn_false in Hv'. apply Hv'.
    apply in_or_app. left. exact Hv.
Qed.
End SumOut.

Lemma Qc_bd (m1 mz mx t : Qc) : mx <> 0%Qc -> (m1 * mz = t * mx)%Qc -> (m1 / mx * mz = t)%Qc.
Proof.
  intros Hnz H. transitivity ((m1 * mz) / mx)%Qc; [field; exact Hnz|]. rewrite H. field. exact Hnz.
Qed.

(* ---- the adjustment formula itself, over the rationals -------------------------------------------------- *)
Section AdjustmentQc.
Notation R := Qc_sum_csr.
Variable card : var -> nat.
Variable g : digraph.
Variable F : var -> asg -> Qc.
Hypothesis Hwf : wf_graph g.
Hypothesis Hac : acyclic g.
Hypothesis Fdep : forall x, In x (nodes g) -> @depends_only R (F x) (x :: parents g x).
Hypothesis Fsum : forall x, In x (nodes g) -> forall a, valid card a -> @sum_over R [x] [card x] (F x) a = 1%Qc.
Variable x : node.
Variable xv : nat.
Hypothesis Hx : In x (nodes g).
Hypothesis Hxv : xv < card x.
Variables Y Z : list node.
Hypothesis HY : forall y, In y Y -> In y (nodes g) /\ ~ In y (x :: Z).
Hypothesis HZ : NoDup Z /\ incl Z (nodes g) /\ ~ In x Z.
(* pgmpy's test is_valid_backdoor_adjustment_set(x, y, Z), for every y in Y *)
Hypothesis Htest : forall y, In y Y -> forallb (fun p => negb (is_dconnected g p y (x :: Z))) (parents g x) = true.
(* no adjustment variable is a descendant of x *)
Hypothesis Hdesc : forall z, In z Z -> ~ dpath g x z.

Notation P := (marg R card g F).
Notation Pdo := (trunc R card g F x).

Lemma all_okQ : forall q : R, ok q. Proof. intros q. exact I. Qed.

Lemma test_dsep : forall p y, In (p, x) (edges g) -> In y Y -> ~ In p (x :: Z) -> ~ dconnected g (x :: Z) y p.
Proof.
  intros p y Hp Hy HpZ Hc. pose proof (Htest y Hy) as Ht. rewrite forallb_forall in Ht.
  specialize (Ht p (proj2 (In_parents g p x) Hp)). apply negb_true_iff in Ht.
  apply (dconnected_sym g (x :: Z) y p) in Hc.
  assert (Hpn : In p (nodes g)) by (apply (proj2 Hwf p x Hp)).
  assert (H : is_dconnected g p y (x :: Z) = true).
  { apply (is_dconnected_iff g p y (x :: Z) Hwf Hac Hpn HpZ). split; [apply HY; exact Hy|exact Hc]. }
  congruence.
Qed.

(* P(y, x, z) P(z) = P_do(y, z) P(x, z)  at x = xv *)
Theorem backdoor_product_test a : valid card a -> a x = xv ->
  (P (Y ++ x :: Z) a * P Z a = Pdo (Y ++ Z) a * P (x :: Z) a)%Qc.
Proof.
  intros Ha Hax.
  exact (backdoor_product R all_okQ card g F Hwf Hac Fdep Fsum x xv Hx Hxv Y Z HY test_dsep a Hdesc
           (proj2 (proj2 HZ)) Ha Hax).
Qed.

Lemma gmarg_set_ext (G : asg -> Qc) S S' a : (forall v, In v S <-> In v S') -> gmarg R card g G S a = gmarg R card g G S' a.
Proof.
  intros H. unfold gmarg.
  assert (E : filter (fun v => negb (memn v S)) (nodes g) = filter (fun v => negb (memn v S')) (nodes g)).
  { apply filter_ext. intros v. f_equal. apply eq_true_iff_eq. rewrite !memn_In. apply H. }
  rewrite E. reflexivity.
Qed.

(* BACK-DOOR ADJUSTMENT:  sum_z P(y | x, z) P(z) = P(y | do(x = xv)),  with P(y | x, z) = P(y,x,z) / P(x,z),
   whenever P(x = xv, z) <> 0 for every z *)
Theorem backdoor_adjustment a : valid card a -> a x = xv ->
  (forall b, valid card b -> b x = xv -> P (x :: Z) b <> 0%Qc) ->
  @sum_over R Z (map card Z) (fun b => (P (Y ++ x :: Z) b / P (x :: Z) b * P Z b)%Qc) a = Pdo Y a.
Proof.
  intros Ha Hax Hpos. destruct HZ as [HZnd [HZn HxZ]].
  transitivity (@sum_over R Z (map card Z) (Pdo (Y ++ Z)) a).
  - apply (sum_over_ext_on R card); [exact Ha|]. intros b Hb Hag.
    assert (Hbx : b x = xv) by (rewrite Hag; [exact Hax|exact HxZ]).
    pose proof (backdoor_product_test b Hb Hbx) as Hp. pose proof (Hpos b Hb Hbx) as Hnz.
    exact (Qc_bd _ _ _ _ Hnz Hp).
  - unfold trunc.
    change (@sum_over R Z (map card Z) (gmarg R card g (jprod R F (remv x (nodes g))) (x :: Y ++ Z)) a =
            gmarg R card g (jprod R F (remv x (nodes g))) (x :: Y) a).
    rewrite <- (gmarg_sum_out R card g (proj1 Hwf) (jprod R F (remv x (nodes g))) Z (x :: Y) a).
    + apply (sum_over_ext_fun R). intros b. apply gmarg_set_ext. intros v. cbn [In]. rewrite !in_app_iff. cbn [In]. tauto.
    + apply jprod_ext. intros v Hv. apply filter_In in Hv. eapply depends_only_ext. apply Fdep. apply Hv.
    + exact HZnd.
    + exact HZn.
    + intros z Hz [E|Hy]; [subst; contradiction|]. apply (proj2 (HY z Hy)). right. exact Hz.
Qed.
End AdjustmentQc.
