(* The front-door adjustment formula for mediator SETS, for every DAG of every size (over the rationals).

   family_invariance   two families of conditional distributions along g that agree on every node whose scope
                       touches the nodes d-connected to Y (given the observed set) give the same conditional of Y
                       (product form, no division)
   FdoM                simultaneous intervention on a list M of nodes at the values a reference assignment gives them
   per_member_joint    pgmpy's front-door test looks at each mediator separately (every parent of m is d-separated
                       from y given m, x); that implies the joint statement needed here (every unobserved parent of
                       every m is d-separated from y given M u {x}): simulation of the worklist relation R
   frontdoor_adjustment_sets
       sum_m  P(m, xv) / P(xv)  *  sum_x'  P(y, m, x') / P(m, x') * P(x')   =   P(y | do(x = xv))
   for a duplicate-free list M of mediators. *)
From Coq Require Import List Bool Arith Lia PeanoNat Permutation QArith Qcanon.
From PV Require Import Base.Semiring Base.FinSum Base.Reach Base.Graph Base.RefFactor Base.Markov Base.Backdoor
  Base.Frontdoor C08.Model C08.Spec C08.ProofsTrail C08.ProofsMisc.
Import ListNotations.
Local Close Scope Q_scope.
Local Open Scope nat_scope.

(* ================================================================== 1. two families, one conditional *)
Section FamilyInvariance.
Variable R : csr.
Hypothesis all_ok : forall x : R, ok x.
Variable card : var -> nat.
Variable g : digraph.
Variables F F' : var -> asg -> R.
Hypothesis Hwf : wf_graph g.
Hypothesis Hac : acyclic g.
Hypothesis Fdep : forall x, In x (nodes g) -> depends_only (F x) (x :: parents g x).
Hypothesis Fsum : forall x, In x (nodes g) -> forall a, valid card a -> sum_over [x] [card x] (F x) a = one.
Hypothesis Fdep' : forall x, In x (nodes g) -> depends_only (F' x) (x :: parents g x).
Hypothesis Fsum' : forall x, In x (nodes g) -> forall a, valid card a -> sum_over [x] [card x] (F' x) a = one.
Variables Y Zo : list node.
Hypothesis HY : forall y, In y Y -> In y (nodes g) /\ ~ In y Zo.
Hypothesis Hagree : forall v, In v (nodes g) -> typeA g Y Zo v = true -> forall a, F' v a = F v a.

Theorem family_invariance a : valid card a ->
  mul (marg R card g F (Y ++ Zo) a) (marg R card g F' Zo a) =
  mul (marg R card g F' (Y ++ Zo) a) (marg R card g F Zo a).
Proof.
  intros Ha. set (T := Y ++ Zo).
  assert (HXn : forall y, In y Y -> In y (nodes g)) by (intros y Hy; apply HY; exact Hy).
  assert (HXZ : forall y, In y Y -> ~ In y Zo) by (intros y Hy; apply HY; exact Hy).
  assert (HT : forall t, In t T -> In t Y \/ In t Zo \/ ~ In t (dcl g Y Zo)).
  { intros t Ht. apply in_app_or in Ht. tauto. }
  assert (HTW : incl T (W g T)) by (intros t Ht; apply anc_of_self; assumption).
  pose proof (marg_factor R all_ok card g F Hwf Hac Fdep Fsum Y Zo T HXn HT) as MF.
  pose proof (marg_factor R all_ok card g F' Hwf Hac Fdep' Fsum' Y Zo T HXn HT) as MD.
  assert (I1 : incl Zo T) by (intros v Hv; apply in_or_app; right; exact Hv).
  assert (I2 : incl Zo (W g T)) by (intros v Hv; apply HTW, I1; exact Hv).
  rewrite (MF T a I1 HTW Ha), (MD Zo a (fun v H => H) I2 Ha), (MD T a I1 HTW Ha), (MF Zo a (fun v H => H) I2 Ha).
  assert (EA : forall b, fA R g F' Y Zo T b = fA R g F Y Zo T b).
  { intros b. unfold fA, jprod. f_equal. apply map_ext_in. intros v Hv.
    apply filter_In in Hv. destruct Hv as [Hv Ht]. apply (In_Wl g T) in Hv. apply Hagree; tauto. }
  assert (EN : NS g Y Zo T T = NS g Y Zo T Zo).
  { unfold NS. apply filter_ext_in. intros v _. destruct (memn v (dcl g Y Zo)) eqn:Ed; [reflexivity|].
    cbn [negb andb]. f_equal. apply memn_false in Ed. apply eq_true_iff_eq. rewrite !memn_In. unfold T. rewrite in_app_iff.
    split; [intros [H|H]; [|exact H]; exfalso; apply Ed; apply (X_in_dcl g Hwf Y Zo HXn HXZ); exact H|tauto]. }
  rewrite EN.
  rewrite (sum_over_ext_fun R (DS g Y Zo T Zo) _ (fA R g F' Y Zo T) (fA R g F Y Zo T) a EA).
  rewrite (sum_over_ext_fun R (DS g Y Zo T T) _ (fA R g F' Y Zo T) (fA R g F Y Zo T) a EA).
  set (p := sum_over (DS g Y Zo T T) _ (fA R g F Y Zo T) a).
  set (r := sum_over (DS g Y Zo T Zo) _ (fA R g F Y Zo T) a).
  set (q := sum_over (NS g Y Zo T Zo) _ (fB R g F Y Zo T) a).
  set (s := sum_over (NS g Y Zo T Zo) _ (fB R g F' Y Zo T) a).
  rewrite <- !(mul_assoc R). f_equal.
  rewrite !(mul_assoc R). rewrite (mul_comm R q r), (mul_comm R s r).
  rewrite <- !(mul_assoc R). f_equal. apply mul_comm.
Qed.
End FamilyInvariance.

(* ================================================================== 2. per-member tests imply the joint d-separation *)
Section PerMember.
Variable g : digraph.
Hypothesis Hwf : wf_graph g.
Hypothesis Hac : acyclic g.
Variables x y : node.
Variable M : list node.
Hypothesis Hy : ~ In y (M ++ [x]).
(* is_valid_backdoor g m y [x] for every m in M *)
Hypothesis Htest : forall m, In m M -> forallb (fun p => negb (is_dconnected g p y [m; x])) (parents g m) = true.

Notation Zo := (M ++ [x]).

(* some per-member test is violated *)
Definition Good : Prop :=
  exists m q d, In m M /\ In (q, m) (edges g) /\ ~ In q [m; x] /\ R g [m; x] y (q, d).

Lemma sub_obs m v : In m M -> ~ In v Zo -> ~ In v [m; x].
Proof. intros Hm Hv [E|[E|[]]]; apply Hv; apply in_or_app; [left; subst; exact Hm|right; left; exact E]. Qed.

Lemma no_Good : ~ Good.
Proof.
  intros [m [q [d [Hm [He [Hq HR]]]]]].
  assert (HyZ : ~ In y [m; x]) by (apply sub_obs; assumption).
  pose proof (Htest m Hm) as Ht. rewrite forallb_forall in Ht.
  specialize (Ht q (proj2 (In_parents g q m) He)). apply negb_true_iff in Ht.
  assert (Hc : dconnected g [m; x] y q) by (apply (R_iff_dconnected g [m; x] y q Hwf Hac HyZ); exists d; exact HR).
  apply dconnected_sym in Hc.
  assert (H : is_dconnected g q y [m; x] = true).
  { apply (is_dconnected_iff g q y [m; x] Hwf Hac (proj1 (proj2 Hwf q m He)) Hq). split; assumption. }
  congruence.
Qed.

Lemma R_Down_inv Z s n : R g Z s (n, Down) -> exists b d, R g Z s (b, d) /\ ~ In b Z /\ In (b, n) (edges g).
Proof.
  intros H. remember (n, Down) as t eqn:Et. destruct H as [t Ht|t0 t Ht0 Hn].
  - destruct Ht as [E|[]]. subst t. inversion E.
  - subst t. destruct t0 as [b d]. apply In_bb_next in Hn. exists b, d. destruct d; tauto.
Qed.

Lemma at_member u : In u M -> R g [u; x] y (u, Down) -> Good.
Proof.
  intros Hu HR. destruct (R_Down_inv _ _ _ HR) as [b [d [HRb [Hb He]]]]. exists u, b, d. tauto.
Qed.

Lemma walk_down n z : dpath g n z -> In z Zo -> ~ In n (anc_of g [x]) ->
  (forall m, In m M -> R g [m; x] y (n, Down)) -> Good.
Proof.
  intros Hp. revert n z Hp.
  apply (dpath_ind_left g (fun n z => In z Zo -> ~ In n (anc_of g [x]) ->
           (forall m, In m M -> R g [m; x] y (n, Down)) -> Good)).
  - intros u Hu Hnx Hsim. apply in_app_or in Hu. destruct Hu as [Hu|[E|[]]].
    + apply (at_member u Hu). apply Hsim. exact Hu.
    + exfalso. apply Hnx. subst u. apply anc_of_self; [exact Hwf|left; reflexivity].
  - intros u v w He _ IH Hw Hnx Hsim.
    destruct (in_dec Nat.eq_dec u Zo) as [Hu|Hu].
    + apply in_app_or in Hu. destruct Hu as [Hu|[E|[]]].
      * apply (at_member u Hu). apply Hsim. exact Hu.
      * exfalso. apply Hnx. subst u. apply anc_of_self; [exact Hwf|left; reflexivity].
    + apply (IH Hw).
      * intros H. apply Hnx. exact (anc_of_up_closed g [x] Hwf u v He H).
      * intros m Hm. eapply R_step; [apply Hsim; exact Hm|]. apply In_bb_next. split; [apply sub_obs; assumption|exact He].
Qed.

(* every state reachable from y under the joint conditioning is reachable under every per-member conditioning,
   unless a per-member test is already violated *)
Lemma sim s : R g Zo y s -> Good \/ forall m, In m M -> R g [m; x] y s.
Proof.
  intros H. induction H as [s Hs|s0 s _ IH Hn].
  - right. intros m _. apply reach_src. exact Hs.
  - destruct IH as [G|Sim]; [left; exact G|]. destruct s0 as [n d], s as [n' e]. apply In_bb_next in Hn.
    destruct d, e; destruct Hn as [H1 H2].
    + right. intros m Hm. eapply R_step; [apply Sim; exact Hm|]. apply In_bb_next. split; [apply sub_obs; assumption|exact H2].
    + right. intros m Hm. eapply R_step; [apply Sim; exact Hm|]. apply In_bb_next. split; [apply sub_obs; assumption|exact H2].
    + destruct (in_dec Nat.eq_dec n (anc_of g [x])) as [Hx|Hx].
      * right. intros m Hm. eapply R_step; [apply Sim; exact Hm|]. apply In_bb_next. split; [|exact H2].
        apply (anc_of_spec g [x] n Hwf) in Hx. destruct Hx as [s [[<-|[]] Hp]].
        apply (anc_of_spec g [m; x] n Hwf). exists x. split; [right; left; reflexivity|exact Hp].
      * left. apply (anc_of_spec g Zo n Hwf) in H1. destruct H1 as [z [Hz Hp]].
        exact (walk_down n z Hp Hz Hx Sim).
    + right. intros m Hm. eapply R_step; [apply Sim; exact Hm|]. apply In_bb_next. split; [apply sub_obs; assumption|exact H2].
Qed.

Theorem per_member_joint m p : In m M -> In (p, m) (edges g) -> ~ In p Zo -> ~ dconnected g Zo y p.
Proof.
  intros Hm He Hp Hc. apply (R_iff_dconnected g Zo y p Hwf Hac Hy) in Hc. destruct Hc as [d HR].
  destruct (sim _ HR) as [G|Sim]; [exact (no_Good G)|].
  apply no_Good. exists m, p, d. split; [exact Hm|]. split; [exact He|]. split; [apply sub_obs; assumption|apply Sim; exact Hm].
Qed.
End PerMember.

Lemma dpath_last g u w : dpath g u w -> u = w \/ exists p, dpath g u p /\ In (p, w) (edges g).
Proof. intros H. destruct H as [u|u p w Hp He]; [left; reflexivity|right; exists p; tauto]. Qed.

(* ================================================================== 3. simultaneous interventions *)
Section MultiDo.
Notation RQ := Qc_sum_csr.
Variable card : var -> nat.
Variable g : digraph.
Hypothesis Hwf : wf_graph g.
Hypothesis Hac : acyclic g.
Notation valid := (valid card).
Notation sumv vs := (@sum_over RQ vs (map card vs)).

Lemma okQ' : forall q : RQ, ok q. Proof. intros q. exact I. Qed.

(* do(M = r|M): every node of M gets the point mass at the value the reference assignment r gives it *)
Definition FdoM (F : var -> asg -> Qc) (M : list node) (r : asg) (v : var) (a : asg) : Qc :=
  if memn v M then (if Nat.eqb (a v) (r v) then 1%Qc else 0%Qc) else F v a.

Lemma FdoM_other F M r v a : ~ In v M -> FdoM F M r v a = F v a.
Proof. intros H. unfold FdoM. apply memn_false in H. rewrite H. reflexivity. Qed.

(* a point mass that is already there *)
Lemma FdoM_peel F M r m v a : In m M -> FdoM F M r v a = Fdo RQ (FdoM F M r) m (r m) v a.
Proof.
  intros Hm. unfold Fdo. destruct (Nat.eqb v m) eqn:E; [|reflexivity]. apply Nat.eqb_eq in E. subst v.
  unfold FdoM. apply memn_In in Hm. rewrite Hm. reflexivity.
Qed.

Lemma marg_family_ext (G G' : var -> asg -> Qc) S a : (forall v b, G v b = G' v b) ->
  marg RQ card g G S a = marg RQ card g G' S a.
Proof.
  intros H. unfold marg. apply (sum_over_ext_fun RQ). intros b. unfold jprod. f_equal. apply map_ext. intros v. apply H.
Qed.

Section OneFamily.
Variable F : var -> asg -> Qc.
Hypothesis Fdep : forall v, In v (nodes g) -> @depends_only RQ (F v) (v :: parents g v).
Hypothesis Fsum : forall v, In v (nodes g) -> forall a, valid a -> @sum_over RQ [v] [card v] (F v) a = 1%Qc.
Variable M : list node.
Variable r : asg.
Hypothesis Hr : valid r.
Hypothesis HM : incl M (nodes g).

Notation G := (FdoM F M r).

Lemma G_dep : forall v, In v (nodes g) -> @depends_only RQ (G v) (v :: parents g v).
Proof.
  intros v Hv a b Hab. unfold FdoM. destruct (memn v M); [rewrite (Hab v (or_introl eq_refl)); reflexivity|].
  apply (Fdep v Hv). exact Hab.
Qed.
Lemma G_sum : forall v, In v (nodes g) -> forall a, valid a -> @sum_over RQ [v] [card v] (G v) a = 1%Qc.
Proof.
  intros v Hv a Ha. destruct (in_dec Nat.eq_dec v M) as [Hm|Hm].
  - assert (Ev : forall b, G v b = if Nat.eqb (b v) (r v) then 1%Qc else 0%Qc).
    { intros b. unfold FdoM. apply memn_In in Hm. rewrite Hm. reflexivity. }
    cbn [sum_over].
    rewrite (sum_list_delta RQ okQ' (fun i => G v (upd a v i)) (seq 0 (card v)) (r v)).
    + rewrite Ev, upd_same, Nat.eqb_refl. reflexivity.
    + apply seq_NoDup.
    + apply in_seq. pose proof (Hr v). lia.
    + intros i _ Hi. rewrite Ev, upd_same. apply Nat.eqb_neq in Hi. rewrite Hi. reflexivity.
  - rewrite <- (Fsum v Hv a Ha). apply (sum_over_ext_fun RQ). intros b. apply FdoM_other. exact Hm.
Qed.

Lemma G_ext v : In v (nodes g) -> @ext RQ (G v).
Proof. intros Hv. eapply depends_only_ext. apply G_dep. exact Hv. Qed.
Lemma margG_aeq S a b : aeq a b -> marg RQ card g G S a = marg RQ card g G S b.
Proof. intros H. unfold marg. apply (sum_over_aeq RQ); [apply jprod_ext; intros v Hv; apply G_ext; exact Hv|exact H]. Qed.

(* sum one point mass back in *)
Lemma peel_one m S a : In m M -> ~ In m S -> valid a -> a m = r m ->
  marg RQ card g G S a = marg RQ card g G (m :: S) a.
Proof.
  intros Hm HmS Ha Ham.
  rewrite (marg_family_ext G (Fdo RQ G m (r m)) S a (fun v b => FdoM_peel F M r m v b Hm)).
  etransitivity; [exact (marg_do_sum_x RQ okQ' card g G Hwf G_dep m (r m) (HM m Hm) (Hr m) S a Ha HmS)|].
  rewrite <- (marg_family_ext G (Fdo RQ G m (r m)) (m :: S) _ (fun v b => FdoM_peel F M r m v b Hm)).
  apply margG_aeq. rewrite <- Ham. apply upd_id.
Qed.

(* ... and a whole list of them *)
Lemma peel_list L : forall S a, NoDup L -> incl L M -> (forall l, In l L -> ~ In l S) -> valid a ->
  (forall l, In l L -> a l = r l) -> marg RQ card g G S a = marg RQ card g G (L ++ S) a.
Proof.
  induction L as [|m L IH]; intros S a Hn Hi Hd Ha Hag; [reflexivity|].
  inversion Hn as [|? ? Hm Hn']; subst.
  rewrite (peel_one m S a (Hi m (or_introl eq_refl)) (Hd m (or_introl eq_refl)) Ha (Hag m (or_introl eq_refl))).
  rewrite (IH (m :: S) a Hn').
  - apply marg_set_ext. intros v. cbn [In app]. rewrite !in_app_iff. cbn [In]. tauto.
  - intros l Hl. apply Hi. right. exact Hl.
  - intros l Hl [E|H]; [subst; contradiction|]. exact (Hd l (or_intror Hl) H).
  - exact Ha.
  - intros l Hl. apply Hag. right. exact Hl.
Qed.

(* intervening on M does not change the marginal of nodes that descend from no member of M *)
Lemma G_nondesc Z a : (forall z m, In z Z -> In m M -> ~ dpath g m z) -> valid a ->
  marg RQ card g G Z a = marg RQ card g F Z a.
Proof.
  intros Hnd Ha.
  assert (HMW : forall m, In m M -> ~ In m (anc_of g Z)).
  { intros m Hm H. apply (anc_of_spec g Z m Hwf) in H. destruct H as [z [Hz Hp]]. exact (Hnd z m Hz Hm Hp). }
  assert (HZW : incl Z (anc_of g Z)) by (intros z Hz; apply anc_of_self; assumption).
  rewrite (marg_ancestral RQ okQ' card g G Hwf Hac G_dep G_sum (anc_of g Z) Z a (anc_of_up_closed g Z Hwf) HZW Ha).
  rewrite (marg_ancestral RQ okQ' card g F Hwf Hac Fdep Fsum (anc_of g Z) Z a (anc_of_up_closed g Z Hwf) HZW Ha).
  apply (sum_over_ext_fun RQ). intros b. unfold jprod. f_equal. apply map_ext_in. intros v Hv.
  apply FdoM_other. intros Hm. apply (HMW v Hm). apply filter_In in Hv. destruct Hv as [_ Hv]. apply memn_In in Hv. exact Hv.
Qed.

(* G is also a family along the graph without the edges into M *)
Definition gM : digraph := do_graph g M.
Lemma gM_wf : wf_graph gM. Proof. apply wf_do_graph. exact Hwf. Qed.
Lemma gM_ac : acyclic gM.
Proof. apply (acyclic_incl g gM Hac). intros [u v] H. apply do_graph_In in H. apply H. Qed.
Lemma G_dep_gM : forall v, In v (nodes gM) -> @depends_only RQ (G v) (v :: parents gM v).
Proof.
  intros v Hv a b Hab. unfold FdoM. destruct (memn v M) eqn:E; [rewrite (Hab v (or_introl eq_refl)); reflexivity|].
  apply memn_false in E. apply (Fdep v Hv). intros u [<-|Hu]; [apply Hab; left; reflexivity|].
  apply Hab. right. apply In_parents. apply do_graph_In. split; [apply In_parents; exact Hu|exact E].
Qed.
Lemma gM_no_in u m : In m M -> u <> m -> ~ dpath gM u m.
Proof.
  intros Hm Hne Hp. destruct Hp as [u|u w m _ He]; [congruence|]. apply do_graph_In in He. tauto.
Qed.
End OneFamily.

(* ---- going up a directed path whose nodes stay outside the observed set ---- *)
Lemma R_up' Z v t : dpath g v t -> (forall w, dpath g w t -> ~ In w Z) -> R g Z t (v, Up).
Proof.
  intros Hp. revert v t Hp.
  apply (dpath_ind_left g (fun v t => (forall w, dpath g w t -> ~ In w Z) -> R g Z t (v, Up))).
  - intros u _. apply reach_src. left. reflexivity.
  - intros u v w He Hvw IH Hd. eapply R_step; [apply IH; exact Hd|]. apply In_bb_next. split; [apply Hd; exact Hvw|exact He].
Qed.

(* ================================================================== 4. the formula *)
Section Formula.
Variable F : var -> asg -> Qc.
Hypothesis Fdep : forall v, In v (nodes g) -> @depends_only RQ (F v) (v :: parents g v).
Hypothesis Fsum : forall v, In v (nodes g) -> forall a, valid a -> @sum_over RQ [v] [card v] (F v) a = 1%Qc.
Variable x : node.
Variable xv : nat.
Variables M Y : list node.
Hypothesis Hx : In x (nodes g).
Hypothesis Hxv : xv < card x.
Hypothesis HM : NoDup M /\ incl M (nodes g) /\ ~ In x M.
Hypothesis HY : NoDup Y /\ forall y, In y Y -> In y (nodes g) /\ y <> x /\ ~ In y M.
(* (i) M intercepts every directed path from x to an outcome *)
Hypothesis Hcut : forall y, In y Y -> ~ dpath (do_graph g M) x y.
(* (ii) is_valid_backdoor g x m [] for every mediator *)
Hypothesis Hii : forall m, In m M -> forallb (fun p => negb (is_dconnected g p m [x])) (parents g x) = true.
(* (iii) is_valid_backdoor g m y [x] for every mediator and outcome *)
Hypothesis Hiii : forall m y, In m M -> In y Y ->
  forallb (fun p => negb (is_dconnected g p y [m; x])) (parents g m) = true.

Notation P := (marg RQ card g F).
Notation Zo := (M ++ [x]).

Lemma HMn m : In m M -> In m (nodes g). Proof. intros H. apply HM. exact H. Qed.
Lemma Hxm m : In m M -> m <> x. Proof. intros H ->. apply HM. exact H. Qed.

Lemma x_not_desc m : In m M -> ~ dpath g m x.
Proof.
  intros Hm Hp. pose proof (Hxm m Hm) as Hne.
  destruct (dpath_last g m x Hp) as [E|[p [Hmp He]]]; [congruence|].
  assert (Hpx : p <> x) by (intros ->; exact (acyclic_no_self g x Hac He)).
  pose proof (Hii m Hm) as Ht. rewrite forallb_forall in Ht.
  specialize (Ht p (proj2 (In_parents g p x) He)). apply negb_true_iff in Ht.
  assert (HpZ : ~ In p [x]) by (intros [E|[]]; congruence).
  assert (HR : R g [x] p (m, Up)).
  { apply R_up'; [exact Hmp|]. intros w Hw [E|[]]. subst w. exact (Hac p x He Hw). }
  assert (H : is_dconnected g p m [x] = true).
  { apply (is_dconnected_iff g p m [x] Hwf Hac (proj1 (proj2 Hwf p x He)) HpZ). split; [intros [E|[]]; congruence|].
    apply (R_iff_dconnected g [x] p m Hwf Hac HpZ). exists Up. exact HR. }
  congruence.
Qed.

Lemma HY' : forall y, In y Y -> In y (nodes g) /\ ~ In y Zo.
Proof.
  intros y Hy. destruct (proj2 HY y Hy) as [H1 [H2 H3]]. split; [exact H1|]. intros Hi. apply in_app_or in Hi.
  destruct Hi as [Hi|[E|[]]]; [contradiction|congruence].
Qed.

Lemma M_typeB m : In m M -> typeA g Y Zo m = false.
Proof.
  intros Hm. assert (HXn : forall y, In y Y -> In y (nodes g)) by (intros y Hy; apply HY'; exact Hy).
  unfold typeA. destruct (existsb (fun u => memn u (dcl g Y Zo)) (m :: parents g m)) eqn:E; [|reflexivity].
  exfalso. apply existsb_exists in E. destruct E as [u [Hu Hd]]. apply memn_In in Hd.
  apply (In_dcl g Hwf Y Zo HXn) in Hd. destruct Hd as [HuZ [y [d [Hy HR]]]].
  destruct Hu as [<-|Hu]; [apply HuZ; apply in_or_app; left; exact Hm|]. apply In_parents in Hu.
  apply (per_member_joint g Hwf Hac x y M (proj2 (HY' y Hy)) (fun m0 Hm0 => Hiii m0 y Hm0 Hy) m u Hm Hu HuZ).
  apply (R_iff_dconnected g Zo y u Hwf Hac (proj2 (HY' y Hy))). exists d. exact HR.
Qed.

Lemma agree_off_M (F0 : var -> asg -> Qc) (r : asg) v : In v (nodes g) -> typeA g Y Zo v = true ->
  forall a, FdoM F0 M r v a = F0 v a.
Proof.
  intros _ Ht a. apply FdoM_other. intros Hm. rewrite (M_typeB v Hm) in Ht. discriminate.
Qed.

Section AtB.
Variable b : asg.
Hypothesis Hb : valid b.
Hypothesis Hbx : b x = xv.

Notation G := (FdoM F M b).
Notation F1 := (Fdo RQ F x xv).
Notation G1 := (FdoM F1 M b).
Notation GX := (Fdo RQ G x xv).

Lemma Gd : forall v, In v (nodes g) -> @depends_only RQ (G v) (v :: parents g v).
Proof. exact (G_dep F Fdep M b). Qed.
Lemma Gs : forall v, In v (nodes g) -> forall a, valid a -> @sum_over RQ [v] [card v] (G v) a = 1%Qc.
Proof. exact (G_sum F Fsum M b Hb). Qed.
Lemma F1d : forall v, In v (nodes g) -> @depends_only RQ (F1 v) (v :: parents g v).
Proof. apply Fdo_dep. exact Fdep. Qed.
Lemma F1s : forall v, In v (nodes g) -> forall a, valid a -> @sum_over RQ [v] [card v] (F1 v) a = 1%Qc.
Proof. exact (Fdo_sum RQ okQ' card g F Fsum x xv Hxv). Qed.

(* (b) the inner sum is P(Y, M | do M) *)
Lemma step_b c : valid c -> (forall m, In m M -> c m = b m) -> P Zo c <> 0%Qc ->
  (P (Y ++ Zo) c / P Zo c * P [x] c)%Qc = marg RQ card g G (Y ++ Zo) c.
Proof.
  intros Hc Hag Hnz. apply Qc_bd; [exact Hnz|].
  pose proof (family_invariance RQ okQ' card g F G Hwf Hac Fdep Fsum Gd Gs Y Zo HY'
                (agree_off_M F b) c Hc) as FI.
  assert (E1 : marg RQ card g G Zo c = P [x] c).
  { rewrite <- (peel_list F Fdep M b Hb (proj1 (proj2 HM)) M [x] c (proj1 HM) (fun v H => H)); [| |exact Hc|exact Hag].
    - apply (G_nondesc F Fdep Fsum M b Hb [x] c); [|exact Hc]. intros z m [<-|[]] Hm. apply x_not_desc. exact Hm.
    - intros l Hl [E|[]]. apply (Hxm l Hl). symmetry. exact E. }
  rewrite E1 in FI. exact FI.
Qed.

Lemma step_b_sum : (forall c, valid c -> P Zo c <> 0%Qc) ->
  sumv [x] (fun c => (P (Y ++ Zo) c / P Zo c * P [x] c)%Qc) b = marg RQ card g G (Y ++ M) b.
Proof.
  intros Hpos.
  transitivity (sumv [x] (marg RQ card g G (Y ++ Zo)) b).
  - apply (sum_over_ext_on RQ card); [exact Hb|]. intros c Hc Hag. apply step_b; [exact Hc| |apply Hpos; exact Hc].
    intros m Hm. apply Hag. intros [E|[]]. apply (Hxm m Hm). symmetry. exact E.
  - change (sumv [x] (gmarg RQ card g (jprod RQ G (nodes g)) (Y ++ Zo)) b = gmarg RQ card g (jprod RQ G (nodes g)) (Y ++ M) b).
    rewrite <- (gmarg_sum_out RQ card g (proj1 Hwf) (jprod RQ G (nodes g)) [x] (Y ++ M) b).
    + apply (sum_over_ext_fun RQ). intros c. apply gmarg_set_ext. intros v. cbn [In app]. rewrite !in_app_iff. cbn [In]. tauto.
    + apply jprod_ext. intros v Hv. eapply depends_only_ext. apply Gd. exact Hv.
    + constructor; [intros []|constructor].
    + intros v [<-|[]]. exact Hx.
    + intros v [<-|[]] Hi. apply in_app_or in Hi. destruct Hi as [Hi|Hi]; [|apply HM; exact Hi].
      destruct (proj2 HY x Hi) as [_ [H _]]. congruence.
Qed.

(* (c) in the do(x)-network, fixing M cuts Y loose from x *)
Lemma step_c : trunc RQ card g F x (Y ++ M) b = (trunc RQ card g F x M b * marg RQ card g G (Y ++ M) b)%Qc.
Proof.
  assert (G1d : forall v, In v (nodes g) -> @depends_only RQ (G1 v) (v :: parents g v)) by exact (G_dep F1 F1d M b).
  assert (G1s : forall v, In v (nodes g) -> forall a, valid a -> @sum_over RQ [v] [card v] (G1 v) a = 1%Qc)
    by exact (G_sum F1 F1s M b Hb).
  pose proof (family_invariance RQ okQ' card g F1 G1 Hwf Hac F1d F1s G1d G1s Y Zo HY'
                (agree_off_M F1 b) b Hb) as FI.
  assert (EX : forall v c, G1 v c = GX v c).
  { intros v c. unfold FdoM, Fdo. destruct (memn v M) eqn:E1, (Nat.eqb v x) eqn:E2; try reflexivity.
    apply memn_In in E1. apply Nat.eqb_eq in E2. subst v. exfalso. apply HM. exact E1. }
  (* summing x back in the do(x, M)-network, then undoing do(x) inside the do(M)-network on the cut graph *)
  assert (Hback : forall S, ~ In x S -> (forall s, In s S -> ~ dpath (gM M) x s) ->
            marg RQ card g GX (x :: S) b = marg RQ card g G S b).
  { intros S HxS Hnd.
    transitivity (marg RQ card g GX S b).
    { symmetry. etransitivity; [exact (marg_do_sum_x RQ okQ' card g G Hwf Gd x xv Hx Hxv S b Hb HxS)|].
      unfold marg. apply (sum_over_aeq RQ).
      - apply jprod_ext. intros v Hv. eapply depends_only_ext. apply (Fdo_dep RQ g G Gd x xv). exact Hv.
      - rewrite <- Hbx. apply upd_id. }
    change (marg RQ card (gM M) GX S b = marg RQ card (gM M) G S b).
    exact (do_nondescendants RQ okQ' card (gM M) G (gM_wf M) (gM_ac M) (G_dep_gM F Fdep M b) Gs x xv Hxv S b Hnd Hb). }
  assert (E1 : marg RQ card g F1 (Y ++ Zo) b = trunc RQ card g F x (Y ++ M) b).
  { rewrite <- (marg_do_is_trunc RQ card g F Hwf x xv Hx (Y ++ M) b Hb Hbx). apply marg_set_ext.
    intros v. cbn [In]. rewrite !in_app_iff. cbn [In]. tauto. }
  assert (E3 : marg RQ card g F1 Zo b = trunc RQ card g F x M b).
  { rewrite <- (marg_do_is_trunc RQ card g F Hwf x xv Hx M b Hb Hbx). apply marg_set_ext.
    intros v. cbn [In]. rewrite !in_app_iff. cbn [In]. tauto. }
  assert (E2 : marg RQ card g G1 Zo b = 1%Qc).
  { rewrite (marg_family_ext G1 GX Zo b EX).
    transitivity (marg RQ card g GX (x :: M) b).
    { apply marg_set_ext. intros v. cbn [In]. rewrite !in_app_iff. cbn [In]. tauto. }
    rewrite (Hback M (proj2 (proj2 HM))).
    - pose proof (peel_list F Fdep M b Hb (proj1 (proj2 HM)) M [] b (proj1 HM) (fun v H => H) (fun l _ H => H) Hb (fun l _ => eq_refl)) as PL.
      rewrite app_nil_r in PL. rewrite <- PL. exact (total_one card g Hwf Hac G b Gd Gs Hb).
    - intros m Hm. apply gM_no_in; [exact Hm|]. intros E. apply (Hxm m Hm). symmetry. exact E. }
  assert (E4 : marg RQ card g G1 (Y ++ Zo) b = marg RQ card g G (Y ++ M) b).
  { rewrite (marg_family_ext G1 GX (Y ++ Zo) b EX).
    transitivity (marg RQ card g GX (x :: Y ++ M) b).
    { apply marg_set_ext. intros v. cbn [In]. rewrite !in_app_iff. cbn [In]. tauto. }
    apply Hback.
    - intros Hi. apply in_app_or in Hi. destruct Hi as [Hi|Hi]; [|apply HM; exact Hi].
      destruct (proj2 HY x Hi) as [_ [H _]]. congruence.
    - intros s Hs. apply in_app_or in Hs. destruct Hs as [Hs|Hs]; [apply Hcut; exact Hs|].
      apply gM_no_in; [exact Hs|]. intros E. apply (Hxm s Hs). symmetry. exact E. }
  rewrite E1, E3, E4 in FI. rewrite E2 in FI.
  rewrite Qcmult_1_r in FI. rewrite FI. apply Qcmult_comm.
Qed.
End AtB.

Definition inner_sets (c : asg) : Qc := (P (Y ++ Zo) c / P Zo c * P [x] c)%Qc.
Definition term_sets (b : asg) : Qc := (P Zo b / P [x] b * sumv [x] inner_sets b)%Qc.

(* FRONT-DOOR ADJUSTMENT, mediator sets *)
Theorem frontdoor_adjustment_sets a : valid a -> a x = xv ->
  (forall b, valid b -> b x = xv -> P [x] b <> 0%Qc) ->
  (forall b, valid b -> P Zo b <> 0%Qc) ->
  sumv M term_sets a = trunc RQ card g F x Y a.
Proof.
  intros Ha Hax Hpx Hpmx.
  transitivity (sumv M (trunc RQ card g F x (Y ++ M)) a).
  - apply (sum_over_ext_on RQ card); [exact Ha|]. intros b Hb Hag.
    assert (Hbx : b x = xv) by (rewrite Hag; [exact Hax|apply HM]).
    rewrite (step_c b Hb Hbx). unfold term_sets. f_equal.
    + pose proof (backdoor_adjustment card g F Hwf Hac Fdep Fsum x xv Hx Hxv M []) as BA.
      assert (H1 : forall y, In y M -> In y (nodes g) /\ ~ In y [x]).
      { intros y Hy. split; [apply HMn; exact Hy|]. intros [E|[]]. apply (Hxm y Hy). symmetry. exact E. }
      assert (H2 : NoDup (@nil node) /\ incl [] (nodes g) /\ ~ In x []).
      { split; [constructor|]. split; [intros v []|intros []]. }
      specialize (BA H1 H2 Hii (fun z Hz => match Hz with end) b Hb Hbx (fun c Hc Hcx => Hpx c Hc Hcx)).
      cbn [sum_over map] in BA. rewrite (total_one card g Hwf Hac F b Fdep Fsum Hb), Qcmult_1_r in BA. exact BA.
    + exact (step_b_sum b Hb Hpmx).
  - unfold trunc.
    change (sumv M (gmarg RQ card g (jprod RQ F (remv x (nodes g))) (x :: Y ++ M)) a =
            gmarg RQ card g (jprod RQ F (remv x (nodes g))) (x :: Y) a).
    rewrite <- (gmarg_sum_out RQ card g (proj1 Hwf) (jprod RQ F (remv x (nodes g))) M (x :: Y) a).
    + apply (sum_over_ext_fun RQ). intros b. apply gmarg_set_ext. intros v. cbn [In app]. rewrite !in_app_iff. cbn [In]. tauto.
    + apply jprod_ext. intros v Hv. apply filter_In in Hv. eapply depends_only_ext. apply Fdep. apply Hv.
    + apply HM.
    + apply HM.
    + intros v Hv [E|Hi]; [apply (Hxm v Hv); symmetry; exact E|]. destruct (proj2 HY v Hi) as [_ [_ H]]. contradiction.
Qed.
End Formula.
End MultiDo.
