(* Generic worklist search over a finite state space, with its correctness theorem.
   Used for every "set + pop" loop of pgmpy (ancestors, active trails, has_path, ...): the
   loops pop an arbitrary element; the result is the reachable set, independent of the order. *)
From Coq Require Import List Bool Arith Lia.
Import ListNotations.

Section Reach.
Variable S : Type.
Variable eqb : S -> S -> bool.
Hypothesis eqb_spec : forall a b, eqb a b = true <-> a = b.
Variable next : S -> list S.

Definition mem (x : S) (l : list S) : bool := existsb (eqb x) l.

Lemma mem_In x l : mem x l = true <-> In x l.
Proof.
  unfold mem. rewrite existsb_exists. split.
  - intros [y [Hy He]]. apply eqb_spec in He. subst. exact Hy.
  - intros H. exists x. split; [exact H|]. apply eqb_spec. reflexivity.
Qed.

Lemma mem_false x l : mem x l = false <-> ~ In x l.
Proof.
  split.
  - intros H Hi. apply mem_In in Hi. congruence.
  - intros H. destruct (mem x l) eqn:E; [|reflexivity]. apply mem_In in E. contradiction.
Qed.

(* [search fuel work visited]: fuel bounds the number of NEW states that may be visited. *)
Fixpoint search (fuel : nat) : list S -> list S -> option (list S) :=
  fix inner (work visited : list S) {struct work} : option (list S) :=
    match work with
    | [] => Some visited
    | x :: w =>
        if mem x visited then inner w visited
        else match fuel with
             | 0 => None
             | Datatypes.S f => search f (next x ++ w) (x :: visited)
             end
    end.

Lemma search_unfold fuel work visited :
  search fuel work visited =
    match work with
    | [] => Some visited
    | x :: w =>
        if mem x visited then search fuel w visited
        else match fuel with
             | 0 => None
             | Datatypes.S f => search f (next x ++ w) (x :: visited)
             end
    end.
Proof. destruct fuel; destruct work; reflexivity. Qed.

Inductive reach (src : list S) : S -> Prop :=
| reach_src x : In x src -> reach src x
| reach_step x y : reach src x -> In y (next x) -> reach src y.

Lemma reach_mono src src' x : incl src src' -> reach src x -> reach src' x.
Proof.
  intros Hi H. induction H as [x Hx|x y _ IH Hy].
  - apply reach_src. apply Hi. exact Hx.
  - eapply reach_step; eauto.
Qed.

(* ---- soundness: everything returned is an initial visited state or reachable from work --- *)
Lemma search_sound fuel : forall work visited r,
  search fuel work visited = Some r ->
  forall x, In x r -> In x visited \/ reach work x.
Proof.
  induction fuel as [|f IHf].
  - induction work as [|a w IHw]; intros visited r H x Hx; rewrite search_unfold in H.
    + inversion H; subst. left. exact Hx.
    + destruct (mem a visited) eqn:E; [|discriminate].
      destruct (IHw _ _ H x Hx) as [Hv|Hr]; [left; exact Hv|right].
      eapply reach_mono; [|exact Hr]. intros z Hz. right. exact Hz.
  - induction work as [|a w IHw]; intros visited r H x Hx; rewrite search_unfold in H.
    + inversion H; subst. left. exact Hx.
    + destruct (mem a visited) eqn:E.
      * destruct (IHw _ _ H x Hx) as [Hv|Hr]; [left; exact Hv|right].
        eapply reach_mono; [|exact Hr]. intros z Hz. right. exact Hz.
      * destruct (IHf _ _ _ H x Hx) as [Hv|Hr].
        -- destruct Hv as [Hv|Hv]; [subst; right; apply reach_src; left; reflexivity|left; exact Hv].
        -- right. clear - Hr. induction Hr as [z Hz|z y _ IH Hy].
           ++ apply in_app_or in Hz. destruct Hz as [Hz|Hz].
              ** eapply reach_step; [apply reach_src; left; reflexivity|exact Hz].
              ** apply reach_src. right. exact Hz.
           ++ eapply reach_step; eauto.
Qed.

(* ---- completeness: the result contains work and visited and is closed, given that the
        already visited states have their successors in visited ++ work ------------------- *)
Definition closed_mod (visited work : list S) : Prop :=
  forall x y, In x visited -> In y (next x) -> In y visited \/ In y work.

Lemma search_inv fuel : forall work visited r,
  search fuel work visited = Some r ->
  closed_mod visited work ->
  incl visited r /\ incl work r /\ closed_mod r [].
Proof.
  induction fuel as [|f IHf].
  - induction work as [|a w IHw]; intros visited r H Hc; rewrite search_unfold in H.
    + inversion H; subst. split; [apply incl_refl|]. split; [intros z []|]. exact Hc.
    + destruct (mem a visited) eqn:E; [|discriminate].
      apply mem_In in E.
      assert (Hc' : closed_mod visited w).
      { intros x y Hx Hy. destruct (Hc x y Hx Hy) as [H1|[H1|H1]]; subst; auto. }
      destruct (IHw _ _ H Hc') as (H1 & H2 & H3).
      split; [exact H1|]. split; [|exact H3].
      intros z [Hz|Hz]; [subst; apply H1; exact E|apply H2; exact Hz].
  - induction work as [|a w IHw]; intros visited r H Hc; rewrite search_unfold in H.
    + inversion H; subst. split; [apply incl_refl|]. split; [intros z []|]. exact Hc.
    + destruct (mem a visited) eqn:E.
      * apply mem_In in E.
        assert (Hc' : closed_mod visited w).
        { intros x y Hx Hy. destruct (Hc x y Hx Hy) as [H1|[H1|H1]]; subst; auto. }
        destruct (IHw _ _ H Hc') as (H1 & H2 & H3).
        split; [exact H1|]. split; [|exact H3].
        intros z [Hz|Hz]; [subst; apply H1; exact E|apply H2; exact Hz].
      * assert (Hc' : closed_mod (a :: visited) (next a ++ w)).
        { intros x y [Hx|Hx] Hy.
          - subst. right. apply in_or_app. left. exact Hy.
          - destruct (Hc x y Hx Hy) as [H1|[H1|H1]].
            + left. right. exact H1.
            + subst. left. left. reflexivity.
            + right. apply in_or_app. right. exact H1. }
        destruct (IHf _ _ _ H Hc') as (H1 & H2 & H3).
        split; [intros z Hz; apply H1; right; exact Hz|].
        split; [|exact H3].
        intros z [Hz|Hz]; [subst; apply H1; left; reflexivity|].
        apply H2. apply in_or_app. right. exact Hz.
Qed.

Theorem search_complete fuel work r :
  search fuel work [] = Some r -> forall x, reach work x -> In x r.
Proof.
  intros H x Hx.
  destruct (search_inv fuel work [] r H) as (_ & H2 & H3); [intros ? ? []|].
  induction Hx as [z Hz|z y _ IH Hy]; [apply H2; exact Hz|].
  destruct (H3 z y IH Hy) as [H4|[]]. exact H4.
Qed.

Theorem search_correct fuel work r :
  search fuel work [] = Some r -> forall x, In x r <-> reach work x.
Proof.
  intros H x. split.
  - intros Hx. destruct (search_sound _ _ _ _ H x Hx) as [[]|Hr]. exact Hr.
  - apply search_complete with (fuel := fuel). exact H.
Qed.

(* ---- fuel: a universe that contains work and is closed under next bounds the visits ---- *)
Lemma search_nodup fuel : forall work visited r,
  search fuel work visited = Some r -> NoDup visited -> NoDup r.
Proof.
  induction fuel as [|f IHf].
  - induction work as [|a w IHw]; intros visited r H Hn; rewrite search_unfold in H.
    + inversion H; subst; exact Hn.
    + destruct (mem a visited); [eauto|discriminate].
  - induction work as [|a w IHw]; intros visited r H Hn; rewrite search_unfold in H.
    + inversion H; subst; exact Hn.
    + destruct (mem a visited) eqn:E; [eauto|].
      apply (IHf _ _ _ H). constructor; [|exact Hn]. apply mem_false. exact E.
Qed.

Lemma search_fuel_enough (U : list S) :
  (forall x y, In x U -> In y (next x) -> In y U) ->
  forall fuel work visited,
    incl work U -> incl visited U -> NoDup visited ->
    length U <= fuel + length visited ->
    exists r, search fuel work visited = Some r.
Proof.
  intros HU. induction fuel as [|f IHf].
  - induction work as [|a w IHw]; intros visited Hw Hv Hn Hl; rewrite search_unfold.
    + eexists; reflexivity.
    + destruct (mem a visited) eqn:E.
      * apply IHw; auto. intros z Hz. apply Hw. right. exact Hz.
      * exfalso. apply mem_false in E.
        assert (Hn' : NoDup (a :: visited)) by (constructor; assumption).
        assert (Hi : incl (a :: visited) U).
        { intros z [Hz|Hz]; [subst; apply Hw; left; reflexivity|apply Hv; exact Hz]. }
        pose proof (NoDup_incl_length Hn' Hi) as Hlen. simpl in Hlen. lia.
  - induction work as [|a w IHw]; intros visited Hw Hv Hn Hl; rewrite search_unfold.
    + eexists; reflexivity.
    + destruct (mem a visited) eqn:E.
      * apply IHw; auto. intros z Hz. apply Hw. right. exact Hz.
      * apply mem_false in E. apply IHf.
        -- intros z Hz. apply in_app_or in Hz. destruct Hz as [Hz|Hz].
           ++ eapply HU; [|exact Hz]. apply Hw. left. reflexivity.
           ++ apply Hw. right. exact Hz.
        -- intros z [Hz|Hz]; [subst; apply Hw; left; reflexivity|apply Hv; exact Hz].
        -- constructor; assumption.
        -- simpl. lia.
Qed.

End Reach.
