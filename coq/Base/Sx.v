(* Sx: the universal wire format between the Python harness and the extracted model.
   A value is an integer or a list of values.  Decoders are total (option). *)
From Coq Require Import ZArith List Bool QArith Qcanon.
Import ListNotations.

Inductive sx : Type := SZ (z : Z) | SL (l : list sx).

Definition sx_Z (s : sx) : option Z := match s with SZ z => Some z | _ => None end.
Definition sx_nat (s : sx) : option nat :=
  match s with SZ z => if (z <? 0)%Z then None else Some (Z.to_nat z) | _ => None end.
Definition sx_bool (s : sx) : option bool :=
  match s with SZ z => Some (negb (z =? 0)%Z) | _ => None end.

Fixpoint traverse {A B} (f : A -> option B) (l : list A) : option (list B) :=
  match l with
  | [] => Some []
  | x :: r => match f x, traverse f r with
              | Some y, Some ys => Some (y :: ys)
              | _, _ => None
              end
  end.

Definition sx_list {A} (d : sx -> option A) (s : sx) : option (list A) :=
  match s with SL l => traverse d l | _ => None end.
Definition sx_pair {A B} (da : sx -> option A) (db : sx -> option B) (s : sx) : option (A * B) :=
  match s with
  | SL [a; b] => match da a, db b with Some x, Some y => Some (x, y) | _, _ => None end
  | _ => None
  end.
Definition sx_triple {A B C} (da : sx -> option A) (db : sx -> option B) (dc : sx -> option C)
  (s : sx) : option (A * B * C) :=
  match s with
  | SL [a; b; c] => match da a, db b, dc c with
                    | Some x, Some y, Some z => Some (x, y, z) | _, _, _ => None end
  | _ => None
  end.
(* rationals travel as [num; den] with den > 0 *)
Definition sx_Qc (s : sx) : option Qc :=
  match s with
  | SL [SZ n; SZ (Zpos d)] => Some (Q2Qc (n # d))
  | _ => None
  end.

Definition of_nat (n : nat) : sx := SZ (Z.of_nat n).
Definition of_bool (b : bool) : sx := SZ (if b then 1 else 0)%Z.
Definition of_list {A} (e : A -> sx) (l : list A) : sx := SL (map e l).
Definition of_pair {A B} (ea : A -> sx) (eb : B -> sx) (p : A * B) : sx := SL [ea (fst p); eb (snd p)].
Definition of_Qc (q : Qc) : sx := SL [SZ (Qnum (this q)); SZ (Zpos (Qden (this q)))].
Definition of_option {A} (e : A -> sx) (o : option A) : sx :=
  match o with Some x => SL [e x] | None => SL [] end.

(* error reply: the list [-1; code] can never be confused with a data reply, which every
   entry point wraps as [0; payload] *)
Definition sx_err (code : Z) : sx := SL [SZ (-1)%Z; SZ code].
Definition sx_ok (s : sx) : sx := SL [SZ 0%Z; s].
Definition bad_request : sx := sx_err 99%Z.

(* decidable equality on wire values: used by the extraction cross-check (the same requests are
   re-evaluated inside Coq with vm_compute and compared with the extracted driver's replies) *)
Fixpoint sx_eqb (a b : sx) {struct a} : bool :=
  match a, b with
  | SZ x, SZ y => Z.eqb x y
  | SL l, SL m =>
      (fix go (l : list sx) (m : list sx) {struct l} : bool :=
         match l, m with
         | [], [] => true
         | x :: l', y :: m' => sx_eqb x y && go l' m'
         | _, _ => false
         end) l m
  | _, _ => false
  end.
