(* Matrix: dense matrices as lists of rows over an abstract field record.

   Design: every matrix-producing operation is [mbuild n m f] (n rows of length m, entry (i,j) = f i j)
   with the column count passed explicitly (a list of rows cannot remember the column count of a
   0-row matrix, numpy arrays can).  All algebra is proved entry-wise through
   [mget (mbuild n m f) i j = f i j] and finite sums [bsum].

   numpy primitives are *defined by their documented meaning*:
     a[idx]                  -> select          a[np.ix_(r, c)]       -> msub_ix
     a[idx, :]               -> mrows           np.delete(a, idx)     -> vdelete / mdelete_rows / mdelete_cols
     a[i, j] = x             -> mset            a @ b, a.T            -> mmul, mtrans
     np.linalg.inv           -> minv : a Gauss-Jordan elimination whose result is *checked*
                                (W*A = I and A*W = I decided with the field's equality test) before it is
                                returned; [minv_ok] is therefore a theorem although the elimination
                                itself is not verified (certifying inverse).
   Theorems hold for every field (in particular the reals); execution instantiates Qc. *)
From Coq Require Import List Bool Arith Lia Field.
From PV Require Import Base.Graph.
Import ListNotations.

Record fieldT := mkField {
  carrier :> Type;
  f0 : carrier; f1 : carrier;
  fadd : carrier -> carrier -> carrier; fmul : carrier -> carrier -> carrier;
  fsub : carrier -> carrier -> carrier; fopp : carrier -> carrier;
  fdiv : carrier -> carrier -> carrier; finv : carrier -> carrier;
  feqb : carrier -> carrier -> bool }.

Definition field_ok (K : fieldT) : Prop :=
  field_theory (f0 K) (f1 K) (fadd K) (fmul K) (fsub K) (fopp K) (fdiv K) (finv K) eq
  /\ (forall a b : K, feqb K a b = true -> a = b).

Declare Scope F_scope.
Delimit Scope F_scope with F.

(* ---------------------------------------------------------------- plain list helpers *)
Fixpoint upd {A} (l : list A) (i : nat) (x : A) : list A :=
  match l, i with
  | [], _ => []
  | _ :: r, O => x :: r
  | a :: r, S k => a :: upd r k x
  end.

Fixpoint index_of (x : nat) (l : list nat) : option nat :=
  match l with
  | [] => None
  | y :: r => if Nat.eqb y x then Some O else option_map S (index_of x r)
  end.

Definition complement (n : nat) (idx : list nat) : list nat :=
  filter (fun i => negb (memn i idx)) (seq 0 n).

Fixpoint traverse_o {A B} (f : A -> option B) (l : list A) : option (list B) :=
  match l with
  | [] => Some []
  | x :: r => match f x, traverse_o f r with
              | Some y, Some ys => Some (y :: ys)
              | _, _ => None
              end
  end.

Lemma length_upd {A} (l : list A) i x : length (upd l i x) = length l.
Proof. revert i; induction l; destruct i; simpl; auto. Qed.

Lemma nth_upd {A} (l : list A) i j x d :
  nth j (upd l i x) d = if Nat.eqb i j && Nat.ltb i (length l) then x else nth j l d.
Proof.
  revert i j; induction l as [|a r IH]; intros i j.
  - simpl. destruct j; rewrite andb_false_r; reflexivity.
  - destruct i, j; simpl; auto.
    rewrite IH. reflexivity.
Qed.

Lemma nth_map_seq {A} (f : nat -> A) n i d : i < n -> nth i (map f (seq 0 n)) d = f i.
Proof.
  intro H. rewrite (nth_indep _ d (f 0)) by (rewrite map_length, seq_length; lia).
  rewrite map_nth, seq_nth by lia. reflexivity.
Qed.

Lemma index_of_Some x l i : index_of x l = Some i -> i < length l /\ nth i l 0 = x.
Proof.
  revert i; induction l as [|y r IH]; simpl; intros i H; [discriminate|].
  destruct (Nat.eqb y x) eqn:E.
  - inversion H; subst. apply Nat.eqb_eq in E. split; [lia|auto].
  - destruct (index_of x r); [|discriminate]. inversion H; subst.
    destruct (IH n eq_refl). split; [lia|auto].
Qed.

Lemma index_of_nth l i : NoDup l -> i < length l -> index_of (nth i l 0) l = Some i.
Proof.
  revert i; induction l as [|y r IH]; simpl; intros i Hnd Hi; [lia|].
  inversion Hnd; subst. destruct i.
  - rewrite Nat.eqb_refl. reflexivity.
  - destruct (Nat.eqb y (nth i r 0)) eqn:E.
    + apply Nat.eqb_eq in E. exfalso. apply H1. rewrite E. apply nth_In. lia.
    + rewrite IH by (auto; lia). reflexivity.
Qed.

Lemma index_of_In x l : In x l -> exists i, index_of x l = Some i.
Proof.
  induction l as [|y r IH]; simpl; intros H; [tauto|].
  destruct (Nat.eqb y x) eqn:E; [eauto|].
  destruct H as [H|H]; [subst; rewrite Nat.eqb_refl in E; discriminate|].
  destruct (IH H) as [i ->]. simpl. eauto.
Qed.

Lemma index_of_None x l : index_of x l = None -> ~ In x l.
Proof.
  intros H Hin. destruct (index_of_In _ _ Hin) as [i Hi]. congruence.
Qed.

Lemma index_of_inj x y l i : index_of x l = Some i -> index_of y l = Some i -> x = y.
Proof.
  intros Hx Hy. apply index_of_Some in Hx. apply index_of_Some in Hy.
  destruct Hx as [_ <-], Hy as [_ <-]. reflexivity.
Qed.

Lemma traverse_o_length {A B} (f : A -> option B) l r : traverse_o f l = Some r -> length r = length l.
Proof.
  revert r; induction l as [|a l IH]; simpl; intros r H.
  - inversion H; reflexivity.
  - destruct (f a); [|discriminate]. destruct (traverse_o f l); [|discriminate].
    inversion H; subst. simpl. f_equal. auto.
Qed.

Lemma traverse_o_nth {A B} (f : A -> option B) l r da db i :
  traverse_o f l = Some r -> i < length l -> f (nth i l da) = Some (nth i r db).
Proof.
  revert r i; induction l as [|a l IH]; simpl; intros r i H Hi; [lia|].
  destruct (f a) eqn:Ea; [|discriminate]. destruct (traverse_o f l) eqn:El; [|discriminate].
  inversion H; subst. destruct i; simpl; auto. apply IH; auto. lia.
Qed.

(* the positions that np.delete keeps are exactly the positions of the names that are not deleted:
   this is what ties np.delete's index bookkeeping to variable names *)
Lemma complement_by_name (ord del : list nat) (di : list nat) :
  NoDup ord ->
  traverse_o (fun v => index_of v ord) del = Some di ->
  traverse_o (fun v => index_of v ord) (filter (fun v => negb (memn v del)) ord)
  = Some (complement (length ord) di).
Proof.
  intros Hnd Hdi.
  assert (Hmem : forall v, In v ord ->
            forall i, index_of v ord = Some i -> memn i di = memn v del).
  { intros v Hv i Hi.
    destruct (memn v del) eqn:E.
    - apply memn_In in E. apply memn_In.
      destruct (In_nth _ _ 0 E) as [k [Hk Hkv]].
      pose proof (traverse_o_nth _ _ _ 0 0 k Hdi Hk) as H. rewrite Hkv, Hi in H.
      inversion H. apply nth_In. rewrite (traverse_o_length _ _ _ Hdi). exact Hk.
    - apply memn_false in E. apply memn_false. intro Hin. apply E.
      destruct (In_nth _ _ 0 Hin) as [k [Hk Hkv]].
      rewrite (traverse_o_length _ _ _ Hdi) in Hk.
      pose proof (traverse_o_nth _ _ _ 0 0 k Hdi Hk) as H. rewrite Hkv in H.
      rewrite (index_of_inj _ _ _ _ Hi H). apply nth_In. exact Hk. }
  unfold complement.
  (* generalise over a suffix of ord *)
  assert (G : forall suf pre, ord = pre ++ suf ->
     traverse_o (fun v => index_of v ord) (filter (fun v => negb (memn v del)) suf)
     = Some (filter (fun i => negb (memn i di)) (seq (length pre) (length suf)))).
  { induction suf as [|v suf IH]; intros pre Heq; simpl; [reflexivity|].
    assert (Hv : index_of v ord = Some (length pre)).
    { pose proof (index_of_nth ord (length pre) Hnd) as H.
      rewrite Heq in H at 2. rewrite app_nth2, Nat.sub_diag in H by lia. simpl in H.
      apply H. rewrite Heq, app_length. simpl. lia. }
    assert (Hin : In v ord) by (rewrite Heq; apply in_or_app; right; left; reflexivity).
    rewrite (Hmem v Hin _ Hv).
    specialize (IH (pre ++ [v])). rewrite <- app_assoc in IH. specialize (IH Heq).
    rewrite app_length in IH. simpl in IH. rewrite Nat.add_1_r in IH.
    destruct (memn v del); simpl.
    - exact IH.
    - rewrite Hv, IH. reflexivity. }
  apply (G ord []). reflexivity.
Qed.

Lemma traverse_o_index_names (ord l : list nat) (li : list nat) :
  traverse_o (fun v => index_of v ord) l = Some li -> map (fun i => nth i ord 0) li = l.
Proof.
  revert li; induction l as [|a l IH]; simpl; intros li H.
  - inversion H; reflexivity.
  - destruct (index_of a ord) eqn:Ea; [|discriminate].
    destruct (traverse_o _ l) eqn:El; [|discriminate]. inversion H; subst. simpl.
    rewrite (IH l0 eq_refl). apply index_of_Some in Ea. destruct Ea as [_ ->]. reflexivity.
Qed.

(* ---------------------------------------------------------------- matrices over K *)
Section Mat.
Variable K : fieldT.
Local Notation "0" := (f0 K) : F_scope.
Local Notation "1" := (f1 K) : F_scope.
Local Infix "+" := (fadd K) : F_scope.
Local Infix "*" := (fmul K) : F_scope.
Local Infix "-" := (fsub K) : F_scope.
Local Infix "/" := (fdiv K) : F_scope.

Definition vec := list K.
Definition mat := list (list K).
Definition vget (v : vec) (i : nat) : K := nth i v 0%F.
Definition mget (M : mat) (i j : nat) : K := nth j (nth i M []) 0%F.

Fixpoint bsum (n : nat) (f : nat -> K) : K :=
  match n with O => 0%F | S k => (bsum k f + f k)%F end.

Definition vbuild (n : nat) (f : nat -> K) : vec := map f (seq 0 n).
Definition mbuild (n m : nat) (f : nat -> nat -> K) : mat := map (fun i => vbuild m (f i)) (seq 0 n).
Definition delta (i j : nat) : K := if Nat.eqb i j then 1%F else 0%F.
Definition mid (n : nat) : mat := mbuild n n delta.
Definition mzero (n m : nat) : mat := mbuild n m (fun _ _ => 0%F).

(* a @ b with b having m columns; a.T with a having m columns *)
Definition mmul (m : nat) (A B : mat) : mat :=
  mbuild (length A) m (fun i j => bsum (length B) (fun l => (mget A i l * mget B l j)%F)).
Definition mtrans (m : nat) (A : mat) : mat := mbuild m (length A) (fun i j => mget A j i).
Definition mplus (m : nat) (A B : mat) : mat := mbuild (length A) m (fun i j => (mget A i j + mget B i j)%F).
Definition mminus (m : nat) (A B : mat) : mat := mbuild (length A) m (fun i j => (mget A i j - mget B i j)%F).
Definition mvmul (A : mat) (v : vec) : vec :=
  vbuild (length A) (fun i => bsum (length v) (fun l => (mget A i l * vget v l)%F)).
Definition vplus (u v : vec) : vec := vbuild (length u) (fun i => (vget u i + vget v i)%F).
Definition vminus (u v : vec) : vec := vbuild (length u) (fun i => (vget u i - vget v i)%F).
Definition dot (u v : vec) : K := bsum (length u) (fun l => (vget u l * vget v l)%F).
Definition mmap (f : K -> K) (A : mat) : mat := map (map f) A.

(* numpy indexing primitives *)
Definition select (idx : list nat) (v : vec) : vec := map (vget v) idx.
Definition mrows (idx : list nat) (M : mat) : mat := map (fun i => nth i M []) idx.
Definition msub_ix (M : mat) (rows cols : list nat) : mat :=
  map (fun i => map (fun j => mget M i j) cols) rows.
Definition vdelete (idx : list nat) (v : vec) : vec := select (complement (length v) idx) v.
Definition mdelete_rows (idx : list nat) (M : mat) : mat := mrows (complement (length M) idx) M.
Definition mdelete_cols (idx : list nat) (M : mat) : mat := map (vdelete idx) M.
Definition mset (M : mat) (i j : nat) (x : K) : mat := upd M i (upd (nth i M []) j x).
(* what D12 used: a[idx, idx] pairs the two index lists (a vector of diagonal picks) *)
Definition mpaired (M : mat) (rows cols : list nat) : vec :=
  map (fun p => mget M (fst p) (snd p)) (combine rows cols).

Definition wf (n m : nat) (A : mat) : Prop := length A = n /\ Forall (fun r => length r = m) A.
Definition wfb (n m : nat) (A : mat) : bool :=
  Nat.eqb (length A) n && forallb (fun r => Nat.eqb (length r) m) A.
Definition meqb (n m : nat) (A B : mat) : bool :=
  forallb (fun i => forallb (fun j => feqb K (mget A i j) (mget B i j)) (seq 0 m)) (seq 0 n).
Definition veqb (n : nat) (u v : vec) : bool :=
  forallb (fun i => feqb K (vget u i) (vget v i)) (seq 0 n).

(* ------------------------------------------------------------ Gauss-Jordan inverse (unverified search) *)
Fixpoint pick_pivot (c : nat) (rows : list vec) : option (vec * list vec) :=
  match rows with
  | [] => None
  | r :: rs => if feqb K (vget r c) 0%F
               then match pick_pivot c rs with
                    | Some (p, rest) => Some (p, r :: rest)
                    | None => None
                    end
               else Some (r, rs)
  end.
Definition vscale (a : K) (v : vec) : vec := map (fun x => (a * x)%F) v.
Definition vaxmy (a : K) (x y : vec) : vec := (* y - a*x *)
  map (fun p => (fst p - a * snd p)%F) (combine y x).
Fixpoint gj (cols : list nat) (done todo : list vec) : option (list vec) :=
  match cols with
  | [] => Some done
  | c :: cs =>
      match pick_pivot c todo with
      | None => None
      | Some (p, rest) =>
          let p' := vscale (finv K (vget p c)) p in
          let elim r := vaxmy (vget r c) p' r in
          gj cs (map elim done ++ [p']) (map elim rest)
      end
  end.
Definition gauss_inv (A : mat) : option mat :=
  let n := length A in
  let aug := map (fun i => nth i A [] ++ vbuild n (delta i)) (seq 0 n) in
  match gj (seq 0 n) [] aug with
  | Some rows => Some (map (skipn n) rows)
  | None => None
  end.
(* np.linalg.inv: None = LinAlgError (singular) *)
Definition minv (A : mat) : option mat :=
  let n := length A in
  if wfb n n A then
    match gauss_inv A with
    | Some W => if wfb n n W && meqb n n (mmul n W A) (mid n) && meqb n n (mmul n A W) (mid n)
                then Some W else None
    | None => None
    end
  else None.

(* ------------------------------------------------------------ lemmas *)
Hypothesis Kok : field_ok K.
Let Fth := proj1 Kok.
Add Field Kfield : Fth.

Lemma bsum_ext n f g : (forall i, i < n -> f i = g i) -> bsum n f = bsum n g.
Proof.
  induction n; simpl; intros H; [reflexivity|]. rewrite IHn, H by (intros; auto with arith). reflexivity.
Qed.
Lemma bsum_zero n f : (forall i, i < n -> f i = 0%F) -> bsum n f = 0%F.
Proof.
  induction n; simpl; intros H; [reflexivity|]. rewrite IHn, H by (intros; auto with arith). ring.
Qed.
Lemma bsum_add n f g : bsum n (fun i => (f i + g i)%F) = (bsum n f + bsum n g)%F.
Proof. induction n; simpl; [ring|]. rewrite IHn. ring. Qed.
Lemma bsum_sub n f g : bsum n (fun i => (f i - g i)%F) = (bsum n f - bsum n g)%F.
Proof. induction n; simpl; [ring|]. rewrite IHn. ring. Qed.
Lemma bsum_mul_l n a f : bsum n (fun i => (a * f i)%F) = (a * bsum n f)%F.
Proof. induction n; simpl; [ring|]. rewrite IHn. ring. Qed.
Lemma bsum_mul_r n a f : bsum n (fun i => (f i * a)%F) = (bsum n f * a)%F.
Proof. induction n; simpl; [ring|]. rewrite IHn. ring. Qed.
Lemma bsum_swap n m (f : nat -> nat -> K) :
  bsum n (fun i => bsum m (fun j => f i j)) = bsum m (fun j => bsum n (fun i => f i j)).
Proof.
  induction n; simpl.
  - symmetry. apply bsum_zero. reflexivity.
  - rewrite IHn. rewrite <- bsum_add. reflexivity.
Qed.
Lemma bsum_delta_l n k f : k < n -> bsum n (fun l => (delta k l * f l)%F) = f k.
Proof.
  unfold delta. induction n; intros Hk; [lia|]. simpl.
  destruct (Nat.eq_dec k n) as [->|Hne].
  - rewrite Nat.eqb_refl. rewrite bsum_zero; [ring|].
    intros i Hi. destruct (Nat.eqb n i) eqn:E; [apply Nat.eqb_eq in E; lia|ring].
  - rewrite IHn by lia. destruct (Nat.eqb k n) eqn:E; [apply Nat.eqb_eq in E; lia|ring].
Qed.
Lemma bsum_delta_r n k f : k < n -> bsum n (fun l => (f l * delta l k)%F) = f k.
Proof.
  intros Hk. rewrite <- (bsum_delta_l n k f Hk). apply bsum_ext. intros i _.
  unfold delta. rewrite (Nat.eqb_sym i k). ring.
Qed.

Lemma length_vbuild n f : length (vbuild n f) = n.
Proof. unfold vbuild. rewrite map_length, seq_length. reflexivity. Qed.
Lemma length_mbuild n m f : length (mbuild n m f) = n.
Proof. unfold mbuild. rewrite map_length, seq_length. reflexivity. Qed.
Lemma vget_vbuild n f i : i < n -> vget (vbuild n f) i = f i.
Proof. intros. unfold vget, vbuild. apply nth_map_seq. assumption. Qed.
Lemma mget_mbuild n m f i j : i < n -> j < m -> mget (mbuild n m f) i j = f i j.
Proof.
  intros Hi Hj. unfold mget, mbuild. rewrite nth_map_seq by assumption.
  apply (vget_vbuild m (f i) j Hj).
Qed.
Lemma wf_mbuild n m f : wf n m (mbuild n m f).
Proof.
  split; [apply length_mbuild|]. unfold mbuild. apply Forall_forall. intros r Hr.
  apply in_map_iff in Hr. destruct Hr as [i [<- _]]. apply length_vbuild.
Qed.
Lemma wf_row n m A i : wf n m A -> i < n -> length (nth i A []) = m.
Proof.
  intros [Hl Hf] Hi. rewrite Forall_forall in Hf. apply Hf. apply nth_In. lia.
Qed.
Lemma wf_ext n m A B : wf n m A -> wf n m B ->
  (forall i j, i < n -> j < m -> mget A i j = mget B i j) -> A = B.
Proof.
  intros HA HB H. apply (nth_ext _ _ [] []).
  - destruct HA, HB. congruence.
  - intros i Hi. assert (Hi' : i < n) by (destruct HA; lia).
    apply (nth_ext _ _ 0%F 0%F).
    + rewrite (wf_row n m A i HA Hi'), (wf_row n m B i HB Hi'). reflexivity.
    + intros j Hj. rewrite (wf_row n m A i HA Hi') in Hj. apply (H i j Hi' Hj).
Qed.
Lemma vec_ext (u v : vec) : length u = length v ->
  (forall i, i < length u -> vget u i = vget v i) -> u = v.
Proof. intros Hl H. apply (nth_ext _ _ 0%F 0%F); assumption. Qed.
Lemma mbuild_ext n m f g : (forall i j, i < n -> j < m -> f i j = g i j) -> mbuild n m f = mbuild n m g.
Proof.
  intros H. apply (wf_ext n m); try apply wf_mbuild. intros i j Hi Hj.
  rewrite !mget_mbuild by assumption. auto.
Qed.
Lemma vbuild_ext n f g : (forall i, i < n -> f i = g i) -> vbuild n f = vbuild n g.
Proof.
  intros H. apply vec_ext; rewrite !length_vbuild; [reflexivity|].
  intros i Hi. rewrite !vget_vbuild by assumption. auto.
Qed.
Lemma mbuild_eta n m A : wf n m A -> mbuild n m (mget A) = A.
Proof.
  intros HA. apply (wf_ext n m); [apply wf_mbuild|assumption|].
  intros i j Hi Hj. apply mget_mbuild; assumption.
Qed.
Lemma vbuild_eta (v : vec) : vbuild (length v) (vget v) = v.
Proof.
  apply vec_ext; rewrite length_vbuild; [reflexivity|]. intros i Hi. apply vget_vbuild; assumption.
Qed.
Lemma wfb_wf n m A : wfb n m A = true <-> wf n m A.
Proof.
  unfold wfb, wf. rewrite andb_true_iff, Nat.eqb_eq, forallb_forall, Forall_forall.
  split; intros [H1 H2]; split; auto; intros r Hr.
  - apply Nat.eqb_eq. auto.
  - apply Nat.eqb_eq. auto.
Qed.
Lemma meqb_ok n m A B : meqb n m A B = true ->
  forall i j, i < n -> j < m -> mget A i j = mget B i j.
Proof.
  unfold meqb. rewrite forallb_forall. intros H i j Hi Hj.
  specialize (H i). rewrite forallb_forall in H.
  apply (proj2 Kok). apply H; apply in_seq; lia.
Qed.

(* wf of the operations *)
Lemma wf_mmul m A B : wf (length A) m (mmul m A B).
Proof. apply wf_mbuild. Qed.
Lemma wf_mtrans m A : wf m (length A) (mtrans m A).
Proof. apply wf_mbuild. Qed.
Lemma wf_mid n : wf n n (mid n).
Proof. apply wf_mbuild. Qed.
Lemma wf_mmul' n m A B : length A = n -> wf n m (mmul m A B).
Proof. intros <-. apply wf_mbuild. Qed.
Lemma wf_mtrans' n m A : length A = n -> wf m n (mtrans m A).
Proof. intros <-. apply wf_mbuild. Qed.

Lemma mget_mmul m A B i j : i < length A -> j < m ->
  mget (mmul m A B) i j = bsum (length B) (fun l => (mget A i l * mget B l j)%F).
Proof. intros. unfold mmul. rewrite mget_mbuild by assumption. reflexivity. Qed.
Lemma mget_mtrans m A i j : i < m -> j < length A -> mget (mtrans m A) i j = mget A j i.
Proof. intros. unfold mtrans. rewrite mget_mbuild by assumption. reflexivity. Qed.
Lemma mget_mid n i j : i < n -> j < n -> mget (mid n) i j = delta i j.
Proof. intros. unfold mid. apply mget_mbuild; assumption. Qed.

Lemma length_mtrans m A : length (mtrans m A) = m.
Proof. apply length_mbuild. Qed.
Lemma length_mmul m A B : length (mmul m A B) = length A.
Proof. apply length_mbuild. Qed.
Lemma length_mid n : length (mid n) = n.
Proof. apply length_mbuild. Qed.

(* (A B) C = A (B C);  A : n x p, B : p x k, C : k x m *)
Lemma mmul_assoc m k A B C : length C = k -> mmul m (mmul k A B) C = mmul m A (mmul m B C).
Proof.
  intros HC. apply (wf_ext (length A) m).
  - apply wf_mmul'. apply length_mmul.
  - apply wf_mmul.
  - intros i j Hi Hj.
    rewrite (mget_mmul m (mmul k A B) C) by (rewrite ?length_mmul; assumption).
    rewrite (mget_mmul m A (mmul m B C)) by assumption.
    rewrite length_mmul.
    transitivity (bsum (length C) (fun l => bsum (length B) (fun q => (mget A i q * mget B q l * mget C l j)%F))).
    + apply bsum_ext. intros l Hl. rewrite mget_mmul by (auto; lia).
      rewrite <- bsum_mul_r. reflexivity.
    + rewrite bsum_swap. apply bsum_ext. intros q Hq.
      rewrite mget_mmul by assumption. rewrite <- bsum_mul_l.
      apply bsum_ext. intros l _. ring.
Qed.

(* (A B)^T = B^T A^T ;  A : n x p (p = length B), B : p x m *)
Lemma mtrans_mmul m A B :
  mtrans m (mmul m A B) = mmul (length A) (mtrans m B) (mtrans (length B) A).
Proof.
  apply (wf_ext m (length A)).
  - apply wf_mtrans'. apply length_mmul.
  - apply wf_mmul'. apply length_mtrans.
  - intros i j Hi Hj.
    rewrite mget_mtrans by (rewrite ?length_mmul; assumption).
    rewrite mget_mmul by assumption.
    rewrite mget_mmul by (rewrite ?length_mtrans; assumption).
    rewrite length_mtrans.
    apply bsum_ext. intros l Hl.
    rewrite !mget_mtrans by assumption. ring.
Qed.

Lemma mmul_id_l n m A : wf n m A -> mmul m (mid n) A = A.
Proof.
  intros HA. apply (wf_ext n m); auto.
  - apply wf_mmul'. apply length_mid.
  - intros i j Hi Hj. rewrite mget_mmul by (rewrite ?length_mid; assumption).
    destruct HA as [HlA _]. rewrite HlA.
    rewrite <- (bsum_delta_l n i (fun l => mget A l j) Hi). apply bsum_ext. intros l Hl.
    rewrite mget_mid by assumption. reflexivity.
Qed.
Lemma mmul_id_r n m A : wf n m A -> mmul m A (mid m) = A.
Proof.
  intros HA. apply (wf_ext n m); auto.
  - destruct HA as [<- _]. apply wf_mmul.
  - intros i j Hi Hj. destruct HA as [HlA HfA].
    rewrite mget_mmul by (rewrite ?HlA; assumption).
    rewrite length_mid.
    rewrite <- (bsum_delta_r m j (fun l => mget A i l) Hj). apply bsum_ext. intros l Hl.
    rewrite mget_mid by assumption. reflexivity.
Qed.
Lemma mtrans_mtrans n m A : wf n m A -> mtrans n (mtrans m A) = A.
Proof.
  intros HA. pose proof HA as [HlA _].
  apply (wf_ext n m); auto.
  - apply wf_mtrans'. apply length_mtrans.
  - intros i j Hi Hj.
    rewrite mget_mtrans by (rewrite ?length_mtrans; assumption).
    rewrite mget_mtrans by (rewrite ?HlA; assumption). reflexivity.
Qed.
Lemma mtrans_mid n : mtrans n (mid n) = mid n.
Proof.
  apply (wf_ext n n).
  - apply wf_mtrans'. apply length_mid.
  - apply wf_mid.
  - intros i j Hi Hj. rewrite mget_mtrans by (rewrite ?length_mid; assumption).
    rewrite !mget_mid by assumption. unfold delta. rewrite Nat.eqb_sym. reflexivity.
Qed.

(* matrix-vector *)
Lemma length_mvmul A v : length (mvmul A v) = length A.
Proof. apply length_vbuild. Qed.
Lemma vget_mvmul A v i : i < length A ->
  vget (mvmul A v) i = bsum (length v) (fun l => (mget A i l * vget v l)%F).
Proof. intros. unfold mvmul. rewrite vget_vbuild by assumption. reflexivity. Qed.
Lemma mvmul_mmul m A B v : length v = m -> mvmul (mmul m A B) v = mvmul A (mvmul B v).
Proof.
  intros Hv. apply vec_ext.
  - rewrite !length_mvmul. apply length_mmul.
  - rewrite length_mvmul, length_mmul. intros i Hi.
    rewrite vget_mvmul by (rewrite length_mmul; assumption).
    rewrite (vget_mvmul A) by assumption.
    rewrite length_mvmul.
    transitivity (bsum (length v) (fun l => bsum (length B) (fun q => (mget A i q * mget B q l * vget v l)%F))).
    + apply bsum_ext. intros l Hl. rewrite mget_mmul by (auto; lia). rewrite <- bsum_mul_r. reflexivity.
    + rewrite bsum_swap. apply bsum_ext. intros q Hq. rewrite vget_mvmul by assumption.
      rewrite <- bsum_mul_l. apply bsum_ext. intros l _. ring.
Qed.
Lemma mvmul_mid (v : vec) : mvmul (mid (length v)) v = v.
Proof.
  apply vec_ext.
  - rewrite length_mvmul. apply length_mid.
  - rewrite length_mvmul, length_mid. intros i Hi.
    rewrite vget_mvmul by (rewrite length_mid; assumption).
    rewrite <- (bsum_delta_l (length v) i (vget v) Hi). apply bsum_ext. intros l Hl.
    rewrite mget_mid by assumption. reflexivity.
Qed.

(* indexing primitives *)
Lemma vget_select idx v a : a < length idx -> vget (select idx v) a = vget v (nth a idx 0%nat).
Proof.
  intros Ha. unfold select, vget at 1.
  rewrite (nth_indep _ 0%F (vget v 0%nat)) by (rewrite map_length; assumption).
  rewrite (map_nth (vget v)). reflexivity.
Qed.
Lemma length_select idx v : length (select idx v) = length idx.
Proof. apply map_length. Qed.
(* THE sub-matrix lemma: np.ix_ picks exactly the entries (rows[a], cols[b]) *)
Lemma mget_msub_ix M rows cols a b : a < length rows -> b < length cols ->
  mget (msub_ix M rows cols) a b = mget M (nth a rows 0%nat) (nth b cols 0%nat).
Proof.
  intros Ha Hb. unfold msub_ix, mget at 1.
  rewrite (nth_indep _ [] (map (fun j => mget M 0%nat j) cols)) by (rewrite map_length; assumption).
  rewrite (map_nth (fun i => map (fun j => mget M i j) cols)).
  rewrite (nth_indep _ 0%F (mget M (nth a rows 0%nat) 0%nat)) by (rewrite map_length; assumption).
  rewrite (map_nth (fun j => mget M (nth a rows 0%nat) j)). reflexivity.
Qed.
Lemma wf_msub_ix M rows cols : wf (length rows) (length cols) (msub_ix M rows cols).
Proof.
  split; [apply map_length|]. apply Forall_forall. intros r Hr. unfold msub_ix in Hr.
  apply in_map_iff in Hr. destruct Hr as [i [<- _]]. apply map_length.
Qed.
Lemma nth_mrows idx M a : a < length idx -> nth a (mrows idx M) [] = nth (nth a idx 0%nat) M [].
Proof.
  intros Ha. unfold mrows.
  rewrite (nth_indep _ [] (nth 0%nat M [])) by (rewrite map_length; assumption).
  rewrite (map_nth (fun i => nth i M [])). reflexivity.
Qed.
Lemma mget_mrows idx M a j : a < length idx -> mget (mrows idx M) a j = mget M (nth a idx 0%nat) j.
Proof. intros Ha. unfold mget. rewrite nth_mrows by assumption. reflexivity. Qed.
Lemma mget_mdelete_cols idx M i b : i < length M ->
  b < length (complement (length (nth i M [])) idx) ->
  mget (mdelete_cols idx M) i b = mget M i (nth b (complement (length (nth i M [])) idx) 0%nat).
Proof.
  intros Hi Hb. unfold mdelete_cols, mget at 1.
  rewrite (nth_indep _ [] (vdelete idx [])) by (rewrite map_length; assumption).
  rewrite (map_nth (vdelete idx)). unfold vdelete.
  apply (vget_select _ (nth i M []) b Hb).
Qed.
Lemma mget_mset M i j x a b :
  mget (mset M i j x) a b =
  if Nat.eqb i a && Nat.eqb j b && Nat.ltb i (length M) && Nat.ltb j (length (nth i M [])) then x else mget M a b.
Proof.
  unfold mset, mget. rewrite nth_upd.
  destruct (Nat.eqb i a) eqn:Eia; simpl; [|reflexivity].
  apply Nat.eqb_eq in Eia; subst a.
  destruct (Nat.ltb i (length M)) eqn:Ei; simpl.
  - rewrite nth_upd. rewrite andb_true_r. reflexivity.
  - rewrite andb_false_r. reflexivity.
Qed.
Lemma wf_mset n m M i j x : wf n m M -> wf n m (mset M i j x).
Proof.
  intros [Hl Hf]. split.
  - unfold mset. rewrite length_upd. assumption.
  - apply Forall_forall. intros r Hr. rewrite Forall_forall in Hf.
    destruct (In_nth _ _ [] Hr) as [a [Ha Hra]]. unfold mset in *.
    rewrite length_upd in Ha. rewrite nth_upd in Hra.
    destruct (Nat.eqb i a && Nat.ltb i (length M)) eqn:E.
    + subst r. rewrite length_upd. apply Hf. apply nth_In.
      apply andb_true_iff in E. destruct E as [_ E]. apply Nat.ltb_lt in E. assumption.
    + subst r. apply Hf. apply nth_In. assumption.
Qed.

(* the certified inverse *)
Lemma minv_ok A W : minv A = Some W ->
  wf (length A) (length A) A /\ wf (length A) (length A) W /\
  mmul (length A) W A = mid (length A) /\ mmul (length A) A W = mid (length A).
Proof.
  unfold minv. destruct (wfb (length A) (length A) A) eqn:EA; [|discriminate].
  destruct (gauss_inv A) as [W'|]; [|discriminate].
  destruct (wfb (length A) (length A) W' && meqb _ _ (mmul (length A) W' A) (mid (length A))
            && meqb _ _ (mmul (length A) A W') (mid (length A))) eqn:E; [|discriminate].
  intros H; inversion H; subst W'. clear H.
  apply andb_true_iff in E. destruct E as [E E3]. apply andb_true_iff in E. destruct E as [E1 E2].
  apply wfb_wf in EA. apply wfb_wf in E1. pose proof E1 as [HlW _].
  repeat split; try (apply EA); try (apply E1).
  - apply (wf_ext (length A) (length A)).
    + apply wf_mmul'. assumption.
    + apply wf_mid.
    + apply meqb_ok. assumption.
  - apply (wf_ext (length A) (length A)).
    + apply wf_mmul.
    + apply wf_mid.
    + apply meqb_ok. assumption.
Qed.

(* inverses are unique: a left inverse equals any right inverse *)
Lemma inverse_unique n A L R : wf n n A -> wf n n L -> wf n n R ->
  mmul n L A = mid n -> mmul n A R = mid n -> L = R.
Proof.
  intros HA HL HR H1 H2.
  rewrite <- (mmul_id_r n n L HL). rewrite <- H2.
  rewrite <- (mmul_assoc n n L A R) by (destruct HR; assumption).
  rewrite H1. apply mmul_id_l. assumption.
Qed.

End Mat.

Arguments vget {K}. Arguments mget {K}. Arguments bsum {K}. Arguments vbuild {K}. Arguments mbuild {K}.
Arguments mmul {K}. Arguments mtrans {K}. Arguments mplus {K}. Arguments mminus {K}.
Arguments mvmul {K}. Arguments vplus {K}. Arguments vminus {K}. Arguments dot {K}. Arguments mmap {K}.
Arguments select {K}. Arguments mrows {K}. Arguments msub_ix {K}. Arguments vdelete {K}.
Arguments mdelete_rows {K}. Arguments mdelete_cols {K}. Arguments mset {K}. Arguments mpaired {K}.
Arguments wf {K}. Arguments wfb {K}. Arguments meqb {K}. Arguments veqb {K}. Arguments minv {K}.
Arguments gauss_inv {K}.
