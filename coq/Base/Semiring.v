(* Commutative semirings "on a subset": laws that need it are guarded by [ok] (e.g. non-negativity).
   Instances: (Qc, +, x) with ok = True  (sum-product)  and  (Qc, max, x) with ok = (0 <= q)
   (max-product).  pgmpy's variable elimination runs the same code with operation = marginalize or
   maximize; theorems proved for an arbitrary [csr] cover both. *)
From Coq Require Import List QArith Qcanon Lia Lqa.
Import ListNotations.

Record csr := {
  K :> Type;
  zero : K;
  one : K;
  add : K -> K -> K;
  mul : K -> K -> K;
  ok : K -> Prop;
  ok_zero : ok zero;
  ok_one : ok one;
  ok_add : forall a b, ok a -> ok b -> ok (add a b);
  ok_mul : forall a b, ok a -> ok b -> ok (mul a b);
  add_comm : forall a b, add a b = add b a;
  add_assoc : forall a b c, add a (add b c) = add (add a b) c;
  add_0_l : forall a, ok a -> add zero a = a;
  mul_comm : forall a b, mul a b = mul b a;
  mul_assoc : forall a b c, mul a (mul b c) = mul (mul a b) c;
  mul_1_l : forall a, mul one a = a;
  mul_0_l : forall a, mul zero a = zero;
  mul_add_distr_l : forall a b c, ok a -> mul a (add b c) = add (mul a b) (mul a c)
}.

Arguments zero {_}. Arguments one {_}. Arguments add {_}. Arguments mul {_}. Arguments ok {_}.

Section Derived.
Variable R : csr.
Lemma add_0_r (a : R) : ok a -> add a zero = a.
Proof. intros H. rewrite add_comm. apply add_0_l. exact H. Qed.
Lemma mul_1_r (a : R) : mul a one = a.
Proof. rewrite mul_comm. apply mul_1_l. Qed.
Lemma mul_0_r (a : R) : mul a zero = zero.
Proof. rewrite mul_comm. apply mul_0_l. Qed.
Lemma mul_add_distr_r (a b c : R) : ok a -> mul (add b c) a = add (mul b a) (mul c a).
Proof. intros H. rewrite (mul_comm R (add b c) a), (mul_comm R b a), (mul_comm R c a). apply mul_add_distr_l. exact H. Qed.
Lemma add_swap (a b c d : R) : add (add a b) (add c d) = add (add a c) (add b d).
Proof.
  rewrite <- (add_assoc R a b (add c d)), (add_assoc R b c d), (add_comm R b c).
  rewrite <- (add_assoc R c b d), (add_assoc R a c (add b d)). reflexivity.
Qed.

(* finite sums / products over lists *)
Definition sum_list (l : list R) : R := fold_right add zero l.
Definition prod_list (l : list R) : R := fold_right mul one l.

Lemma ok_sum_list l : Forall ok l -> ok (sum_list l).
Proof. induction 1; simpl; [apply ok_zero|apply ok_add; assumption]. Qed.
Lemma ok_prod_list l : Forall ok l -> ok (prod_list l).
Proof. induction 1; simpl; [apply ok_one|apply ok_mul; assumption]. Qed.

Lemma sum_list_app l1 l2 : Forall ok l2 -> sum_list (l1 ++ l2) = add (sum_list l1) (sum_list l2).
Proof.
  intros H2. induction l1 as [|x l1 IH]; simpl.
  - symmetry. apply add_0_l. apply ok_sum_list. exact H2.
  - rewrite IH. apply add_assoc.
Qed.
Lemma prod_list_app l1 l2 : prod_list (l1 ++ l2) = mul (prod_list l1) (prod_list l2).
Proof.
  induction l1 as [|x l1 IH]; simpl; [symmetry; apply mul_1_l|]. rewrite IH. apply mul_assoc.
Qed.

Lemma sum_list_mul_l (a : R) l : ok a -> mul a (sum_list l) = sum_list (map (mul a) l).
Proof.
  intros Ha. induction l as [|x l IH]; simpl; [apply mul_0_r|].
  rewrite mul_add_distr_l by exact Ha. rewrite IH. reflexivity.
Qed.

Lemma sum_list_add (f g : nat -> R) (l : list nat) :
  sum_list (map (fun i => add (f i) (g i)) l) = add (sum_list (map f l)) (sum_list (map g l)).
Proof.
  induction l as [|x l IH]; simpl.
  - symmetry. apply add_0_l. apply ok_zero.
  - rewrite IH. apply add_swap.
Qed.

Lemma sum_list_ext {A} (f g : A -> R) l : (forall x, In x l -> f x = g x) -> sum_list (map f l) = sum_list (map g l).
Proof.
  induction l as [|x l IH]; intros H; simpl; [reflexivity|].
  rewrite H by (left; reflexivity). rewrite IH; [reflexivity|]. intros y Hy. apply H. right. exact Hy.
Qed.

(* interchange of two finite sums *)
Lemma sum_list_swap (f : nat -> nat -> R) (l1 l2 : list nat) :
  sum_list (map (fun i => sum_list (map (fun j => f i j) l2)) l1) =
  sum_list (map (fun j => sum_list (map (fun i => f i j) l1)) l2).
Proof.
  induction l1 as [|x l1 IH]; simpl.
  - induction l2 as [|y l2 IH2]; simpl; [reflexivity|]. rewrite <- IH2. symmetry. apply add_0_l. apply ok_zero.
  - rewrite IH. rewrite <- (sum_list_add (fun j => f x j) (fun j => sum_list (map (fun i => f i j) l1)) l2).
    reflexivity.
Qed.
End Derived.

Arguments sum_list {R}. Arguments prod_list {R}.

(* ---- instance: sum-product over Qc ---------------------------------------------------- *)
Local Open Scope Qc_scope.
Definition Qc_sum_csr : csr.
Proof.
  refine {| K := Qc; zero := 0; one := 1; add := Qcplus; mul := Qcmult; ok := fun _ => True |};
    intros; try exact I; ring.
Defined.

(* ---- instance: max-product over Qc, ok = non-negative ----------------------------------- *)
Definition Qcmax (a b : Qc) : Qc := if Qclt_le_dec a b then b else a.

Lemma Qcmax_comm a b : Qcmax a b = Qcmax b a.
Proof.
  unfold Qcmax. destruct (Qclt_le_dec a b) as [H1|H1], (Qclt_le_dec b a) as [H2|H2]; try reflexivity.
  - exfalso. apply (Qclt_not_le _ _ H1). apply Qclt_le_weak. exact H2.
  - apply Qcle_antisym; assumption.
Qed.
Lemma Qcmax_assoc a b c : Qcmax a (Qcmax b c) = Qcmax (Qcmax a b) c.
Proof.
  unfold Qcmax.
  destruct (Qclt_le_dec b c) as [Hbc|Hbc]; destruct (Qclt_le_dec a b) as [Hab|Hab];
    repeat match goal with |- context [Qclt_le_dec ?x ?y] => destruct (Qclt_le_dec x y) end;
    try reflexivity; exfalso; unfold Qclt, Qcle in *; lra.
Qed.
Lemma Qcmax_0_l a : 0 <= a -> Qcmax 0 a = a.
Proof.
  intros H. unfold Qcmax. destruct (Qclt_le_dec 0 a) as [H1|H1]; [reflexivity|]. apply Qcle_antisym; assumption.
Qed.
Lemma Qcmax_nonneg a b : 0 <= a -> 0 <= b -> 0 <= Qcmax a b.
Proof. intros Ha Hb. unfold Qcmax. destruct (Qclt_le_dec a b); assumption. Qed.
Lemma Qcmax_mul_l a b c : 0 <= a -> a * Qcmax b c = Qcmax (a * b) (a * c).
Proof.
  intros Ha. unfold Qcmax.
  destruct (Qclt_le_dec b c) as [H|H]; destruct (Qclt_le_dec (a * b) (a * c)) as [H'|H']; try reflexivity.
  - apply Qcle_antisym; [exact H'|].
    rewrite (Qcmult_comm a c), (Qcmult_comm a b). apply Qcmult_le_compat_r; [apply Qclt_le_weak; exact H|exact Ha].
  - exfalso. apply (Qclt_not_le _ _ H').
    rewrite (Qcmult_comm a c), (Qcmult_comm a b). apply Qcmult_le_compat_r; assumption.
Qed.

Definition Qc_max_csr : csr.
Proof.
  refine {| K := Qc; zero := 0; one := 1; add := Qcmax; mul := Qcmult; ok := fun q => 0 <= q |}.
  - apply Qcle_refl.
  - discriminate.
  - apply Qcmax_nonneg.
  - intros a b Ha Hb. replace (Q2Qc 0) with (Q2Qc 0 * b) by ring. apply Qcmult_le_compat_r; assumption.
  - apply Qcmax_comm.
  - apply Qcmax_assoc.
  - apply Qcmax_0_l.
  - intros; ring.
  - intros; ring.
  - intros; ring.
  - intros; ring.
  - intros a b c Ha. apply Qcmax_mul_l. exact Ha.
Defined.
