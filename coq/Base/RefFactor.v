(* Reference ("textbook") factor algebra over a csr, with a global cardinality function.
   A factor is a scope (list of variables, = axis order) and a flat row-major table.  Every operation
   is defined through [t_build], and its pointwise meaning is proved once here.  pgmpy's literal axis
   bookkeeping (coq/C04) is proved to refine these; algorithm-level models (VE, BP, MAP, sampling,
   conversions) are written and proved on top of this interface. *)
From Coq Require Import List Arith Lia PeanoNat Bool.
From PV Require Import Base.Semiring Base.Ravel Base.FinSum.
Import ListNotations.

Definition memv (x : var) (l : list var) : bool := existsb (Nat.eqb x) l.
Lemma memv_In x l : memv x l = true <-> In x l.
Proof.
  unfold memv. rewrite existsb_exists. split.
  - intros [y [Hy He]]. apply Nat.eqb_eq in He. subst. exact Hy.
  - intros H. exists x. split; [exact H|apply Nat.eqb_refl].
Qed.
Lemma memv_false x l : memv x l = false <-> ~ In x l.
Proof.
  split; intros H.
  - intros Hi. apply memv_In in Hi. congruence.
  - destruct (memv x l) eqn:E; [|reflexivity]. apply memv_In in E. contradiction.
Qed.

(* the assignment sending vs[k] to idx[k] (others to 0) *)
Fixpoint asg_of (vs : list var) (idx : list nat) : asg :=
  match vs, idx with
  | v :: vs', i :: idx' => upd (asg_of vs' idx') v i
  | _, _ => fun _ => 0
  end.

Lemma map_asg_of vs : forall idx, NoDup vs -> length idx = length vs -> map (asg_of vs idx) vs = idx.
Proof.
  induction vs as [|v vs IH]; intros idx Hn Hl; destruct idx as [|i idx]; try discriminate; [reflexivity|].
  inversion Hn as [|? ? Hv Hn']; subst. cbn [asg_of map]. rewrite upd_same. f_equal.
  rewrite <- (IH idx Hn') at 2 by (simpl in Hl; lia).
  apply map_ext_in. intros w Hw. apply upd_other. intros E. subst. contradiction.
Qed.

Lemma asg_of_map a vs : forall v, In v vs -> asg_of vs (map a vs) v = a v.
Proof.
  induction vs as [|w vs IH]; intros v Hv; [destruct Hv|]. cbn [map asg_of].
  unfold upd. destruct (Nat.eqb v w) eqn:E; [apply Nat.eqb_eq in E; subst; reflexivity|].
  apply IH. destruct Hv as [Hv|Hv]; [subst; rewrite Nat.eqb_refl in E; discriminate|exact Hv].
Qed.

Section RefFactor.
Variable R : csr.
Variable card : var -> nat.

Record factor := { fvars : list var; fvals : list R }.
Definition fcard (f : factor) : list nat := map card (fvars f).
Definition wf (f : factor) : Prop := NoDup (fvars f) /\ length (fvals f) = prod (fcard f).
Definition valid (a : asg) : Prop := forall v, a v < card v.

Definition feval (f : factor) (a : asg) : R := t_get R zero (fcard f) (fvals f) (map a (fvars f)).

Lemma valid_in_range a vs : valid a -> in_range (map card vs) (map a vs).
Proof. intros H. induction vs as [|v vs IH]; simpl; constructor; [apply H|exact IH]. Qed.
Lemma valid_upd a v i : valid a -> i < card v -> valid (upd a v i).
Proof.
  intros H Hi w. unfold upd. destruct (Nat.eqb w v) eqn:E; [apply Nat.eqb_eq in E; subst; exact Hi|apply H].
Qed.

Lemma feval_depends_only f : depends_only (feval f) (fvars f).
Proof.
  intros a b Hab. unfold feval. f_equal. apply map_ext_in. exact Hab.
Qed.
Lemma feval_ext f : ext (feval f).
Proof. eapply depends_only_ext. apply feval_depends_only. Qed.

Definition fbuild (vs : list var) (g : asg -> R) : factor :=
  {| fvars := vs; fvals := t_build R (map card vs) (fun idx => g (asg_of vs idx)) |}.

Lemma wf_fbuild vs g : NoDup vs -> wf (fbuild vs g).
Proof. intros H. split; [exact H|]. unfold fbuild, fcard. simpl. apply t_build_length. Qed.

Theorem feval_fbuild vs g a :
  NoDup vs -> valid a -> depends_only g vs -> feval (fbuild vs g) a = g a.
Proof.
  intros Hn Hv Hd. unfold feval, fbuild, fcard. simpl.
  rewrite t_get_build by (apply valid_in_range; exact Hv).
  apply Hd. intros v Hin. apply asg_of_map. exact Hin.
Qed.

(* ---- the operations ------------------------------------------------------------------ *)
Definition vunion (a b : list var) : list var := a ++ filter (fun x => negb (memv x a)) b.
Definition vminus (a b : list var) : list var := filter (fun x => negb (memv x b)) a.
Definition vinter (a b : list var) : list var := filter (fun x => memv x b) a.

Lemma NoDup_filter {A} (p : A -> bool) l : NoDup l -> NoDup (filter p l).
Proof.
  induction 1 as [|x l Hx Hn IH]; simpl; [constructor|].
  destruct (p x); [constructor; [|exact IH]|exact IH].
  intros Hi. apply filter_In in Hi. apply Hx. apply Hi.
Qed.

Lemma NoDup_app_disj {A} (l1 l2 : list A) :
  NoDup l1 -> NoDup l2 -> (forall x, In x l1 -> ~ In x l2) -> NoDup (l1 ++ l2).
Proof.
  induction 1 as [|x l1 Hx Hn IH]; intros H2 Hd; simpl; [exact H2|].
  constructor.
  - intros Hi. apply in_app_or in Hi. destruct Hi as [Hi|Hi]; [contradiction|].
    exact (Hd x (or_introl eq_refl) Hi).
  - apply IH; [exact H2|]. intros y Hy. apply Hd. right. exact Hy.
Qed.
Lemma NoDup_vunion a b : NoDup a -> NoDup b -> NoDup (vunion a b).
Proof.
  intros Ha Hb. unfold vunion. apply NoDup_app_disj; [exact Ha|apply NoDup_filter; exact Hb|].
  intros x Hx Hi. apply filter_In in Hi. destruct Hi as [_ Hi].
  apply negb_true_iff, memv_false in Hi. contradiction.
Qed.
Lemma In_vunion x a b : In x (vunion a b) <-> In x a \/ In x b.
Proof.
  unfold vunion. rewrite in_app_iff, filter_In. split.
  - intros [H|[H _]]; auto.
  - intros [H|H]; [left; exact H|].
    destruct (memv x a) eqn:E; [left; apply memv_In; exact E|right; split; [exact H|reflexivity]].
Qed.
Lemma In_vminus x a b : In x (vminus a b) <-> In x a /\ ~ In x b.
Proof.
  unfold vminus. rewrite filter_In, negb_true_iff, memv_false. reflexivity.
Qed.

(* product: scope = f's variables, then g's new ones (pgmpy's axis order) *)
Definition fprod (f g : factor) : factor :=
  fbuild (vunion (fvars f) (fvars g)) (fun a => mul (feval f a) (feval g a)).

(* sum (or max, depending on the csr) out the variables X *)
Definition fmarg (X : list var) (f : factor) : factor :=
  let xs := vinter (fvars f) X in
  fbuild (vminus (fvars f) X) (sum_over xs (map card xs) (feval f)).

(* reduce by evidence ev = [(v, state index)] *)
Fixpoint upds (a : asg) (ev : list (var * nat)) : asg :=
  match ev with [] => a | (v, i) :: r => upd (upds a r) v i end.
Definition fred (ev : list (var * nat)) (f : factor) : factor :=
  fbuild (vminus (fvars f) (map fst ev)) (fun a => feval f (upds a ev)).

(* the constant-one factor over no variables *)
Definition fone : factor := fbuild [] (fun _ => one).
Definition fprod_list (fs : list factor) : factor := fold_left fprod fs fone.

(* ---- their meaning ------------------------------------------------------------------- *)
Lemma wf_fprod f g : wf f -> wf g -> wf (fprod f g).
Proof. intros [Hf _] [Hg _]. apply wf_fbuild. apply NoDup_vunion; assumption. Qed.
Lemma wf_fmarg X f : wf f -> wf (fmarg X f).
Proof. intros [Hf _]. apply wf_fbuild. apply NoDup_filter. exact Hf. Qed.
Lemma wf_fred ev f : wf f -> wf (fred ev f).
Proof. intros [Hf _]. apply wf_fbuild. apply NoDup_filter. exact Hf. Qed.

Theorem feval_fprod f g a : wf f -> wf g -> valid a ->
  feval (fprod f g) a = mul (feval f a) (feval g a).
Proof.
  intros [Hf _] [Hg _] Hv. unfold fprod. apply feval_fbuild; [apply NoDup_vunion; assumption|exact Hv|].
  intros x y Hxy. f_equal.
  - apply feval_depends_only. intros v Hin. apply Hxy. apply In_vunion. left. exact Hin.
  - apply feval_depends_only. intros v Hin. apply Hxy. apply In_vunion. right. exact Hin.
Qed.

Theorem feval_fmarg X f a : wf f -> valid a ->
  feval (fmarg X f) a =
    sum_over (vinter (fvars f) X) (map card (vinter (fvars f) X)) (feval f) a.
Proof.
  intros [Hf _] Hv. unfold fmarg. apply feval_fbuild; [apply NoDup_filter; exact Hf|exact Hv|].
  eapply depends_only_mono.
  - apply sum_over_depends_only; [apply feval_depends_only|symmetry; apply map_length].
  - intros v Hin. apply filter_In in Hin. destruct Hin as [Hin Hb]. apply In_vminus. split; [exact Hin|].
    intros HX. apply negb_true_iff in Hb.
    assert (Hm : memv v (vinter (fvars f) X) = true).
    { apply memv_In. apply filter_In. split; [exact Hin|apply memv_In; exact HX]. }
    unfold memv in Hm. congruence.
Qed.

Lemma upds_other a ev v : ~ In v (map fst ev) -> upds a ev v = a v.
Proof.
  induction ev as [|[w i] ev IH]; intros H; [reflexivity|]. cbn [upds].
  rewrite upd_other by (intros E; apply H; left; symmetry; exact E).
  apply IH. intros Hi. apply H. right. exact Hi.
Qed.
Theorem feval_fred ev f a : wf f -> valid a ->
  feval (fred ev f) a = feval f (upds a ev).
Proof.
  intros [Hf _] Hv. unfold fred.
  rewrite feval_fbuild; [reflexivity|apply NoDup_filter; exact Hf|exact Hv|].
  intros x y Hxy. apply feval_depends_only. intros v Hin.
  destruct (in_dec Nat.eq_dec v (map fst ev)) as [Hi|Hi].
  - clear Hxy. revert Hi. induction ev as [|[w i] ev IH]; intros Hi; [destruct Hi|]. cbn [upds]. unfold upd.
    destruct (Nat.eqb v w) eqn:E; [reflexivity|]. apply IH.
    destruct Hi as [Hi|Hi]; [simpl in Hi; subst; rewrite Nat.eqb_refl in E; discriminate|exact Hi].
  - rewrite !upds_other by exact Hi. apply Hxy. apply In_vminus. split; assumption.
Qed.

Lemma feval_fone a : valid a -> feval fone a = one.
Proof. intros Hv. unfold fone. apply feval_fbuild; [constructor|exact Hv|]. intros x y _. reflexivity. Qed.

Lemma fvars_fprod f g : fvars (fprod f g) = vunion (fvars f) (fvars g). Proof. reflexivity. Qed.
Lemma fvars_fmarg X f : fvars (fmarg X f) = vminus (fvars f) X. Proof. reflexivity. Qed.
Lemma fvars_fred ev f : fvars (fred ev f) = vminus (fvars f) (map fst ev). Proof. reflexivity. Qed.

(* ok-ness of values *)
Definition fok (f : factor) : Prop := forall a, valid a -> ok (feval f a).
Lemma fok_fprod f g : wf f -> wf g -> fok f -> fok g -> fok (fprod f g).
Proof. intros Hf Hg H1 H2 a Ha. rewrite feval_fprod by assumption. apply ok_mul; auto. Qed.

(* product of a list of factors, pointwise *)
Definition eval_prod (fs : list factor) (a : asg) : R := prod_list (map (fun f => feval f a) fs).

Lemma wf_fold_fprod fs : forall acc, wf acc -> Forall wf fs -> wf (fold_left fprod fs acc).
Proof.
  induction fs as [|f fs IH]; intros acc Ha Hf; [exact Ha|]. inversion Hf; subst. simpl.
  apply IH; [apply wf_fprod; assumption|assumption].
Qed.
Lemma feval_fold_fprod fs : forall acc a, wf acc -> Forall wf fs -> valid a ->
  feval (fold_left fprod fs acc) a = mul (feval acc a) (eval_prod fs a).
Proof.
  induction fs as [|f fs IH]; intros acc a Ha Hf Hv; simpl.
  - unfold eval_prod. simpl. symmetry. apply mul_1_r.
  - inversion Hf; subst. rewrite IH by (try apply wf_fprod; assumption).
    rewrite feval_fprod by assumption. unfold eval_prod. simpl. symmetry. apply mul_assoc.
Qed.
Theorem feval_fprod_list fs a : Forall wf fs -> valid a -> feval (fprod_list fs) a = eval_prod fs a.
Proof.
  intros Hf Hv. unfold fprod_list. rewrite feval_fold_fprod; [|apply wf_fbuild; constructor|exact Hf|exact Hv].
  rewrite feval_fone by exact Hv. apply mul_1_l.
Qed.
End RefFactor.

Arguments fvars {R}. Arguments fvals {R}.
