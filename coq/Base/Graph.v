(* Directed graphs over nat node identifiers (the harness interns pgmpy's hashable node names).
   Executable definitions with the meaning of the networkx calls pgmpy makes, and their
   characterisations. *)
From Coq Require Import List Bool Arith Lia PeanoNat.
From PV Require Import Base.Reach.
Import ListNotations.

Definition node := nat.
Record digraph := { nodes : list node; edges : list (node * node) }.

Definition memn (x : node) (l : list node) : bool := existsb (Nat.eqb x) l.
Lemma memn_In x l : memn x l = true <-> In x l.
Proof.
  unfold memn. rewrite existsb_exists. split.
  - intros [y [Hy He]]. apply Nat.eqb_eq in He. subst. exact Hy.
  - intros H. exists x. split; [exact H|apply Nat.eqb_refl].
Qed.
Lemma memn_false x l : memn x l = false <-> ~ In x l.
Proof.
  split; intros H.
  - intros Hi. apply memn_In in Hi. congruence.
  - destruct (memn x l) eqn:E; [|reflexivity]. apply memn_In in E. contradiction.
Qed.

Definition edge_eqb (a b : node * node) : bool := Nat.eqb (fst a) (fst b) && Nat.eqb (snd a) (snd b).
Lemma edge_eqb_eq a b : edge_eqb a b = true <-> a = b.
Proof.
  destruct a as [a1 a2], b as [b1 b2]. unfold edge_eqb. simpl.
  rewrite andb_true_iff, !Nat.eqb_eq. split; [intros [-> ->]; reflexivity|intros H; inversion H; auto].
Qed.
Definition has_edge (g : digraph) (u v : node) : bool := existsb (edge_eqb (u, v)) (edges g).
Lemma has_edge_In g u v : has_edge g u v = true <-> In (u, v) (edges g).
Proof.
  unfold has_edge. rewrite existsb_exists. split.
  - intros [e [He Hq]]. apply edge_eqb_eq in Hq. subst. exact He.
  - intros H. exists (u, v). split; [exact H|apply edge_eqb_eq; reflexivity].
Qed.

(* predecessors / successors, in edge-list order (the order is never observable in theorems) *)
Definition parents (g : digraph) (v : node) : list node :=
  map fst (filter (fun e => Nat.eqb (snd e) v) (edges g)).
Definition children (g : digraph) (v : node) : list node :=
  map snd (filter (fun e => Nat.eqb (fst e) v) (edges g)).

Lemma In_parents g u v : In u (parents g v) <-> In (u, v) (edges g).
Proof.
  unfold parents. rewrite in_map_iff. split.
  - intros [[a b] [Ha Hf]]. apply filter_In in Hf. destruct Hf as [Hf He].
    simpl in *. apply Nat.eqb_eq in He. subst. exact Hf.
  - intros H. exists (u, v). split; [reflexivity|]. apply filter_In. split; [exact H|].
    simpl. apply Nat.eqb_refl.
Qed.
Lemma In_children g u v : In v (children g u) <-> In (u, v) (edges g).
Proof.
  unfold children. rewrite in_map_iff. split.
  - intros [[a b] [Ha Hf]]. apply filter_In in Hf. destruct Hf as [Hf He].
    simpl in *. apply Nat.eqb_eq in He. subst. exact Hf.
  - intros H. exists (u, v). split; [reflexivity|]. apply filter_In. split; [exact H|].
    simpl. apply Nat.eqb_refl.
Qed.

Definition wf_graph (g : digraph) : Prop :=
  NoDup (nodes g) /\ forall u v, In (u, v) (edges g) -> In u (nodes g) /\ In v (nodes g).
Definition wf_graphb (g : digraph) : bool :=
  forallb (fun e => memn (fst e) (nodes g) && memn (snd e) (nodes g)) (edges g).

(* ---- reachability along edges ------------------------------------------------------- *)
Lemma nat_eqb_spec a b : Nat.eqb a b = true <-> a = b.
Proof. apply Nat.eqb_eq. Qed.

(* nodes reachable from [src] by following edges forwards (descendants-or-self) *)
Definition desc_of (g : digraph) (src : list node) : list node :=
  match search node Nat.eqb (children g) (length (nodes g) + length src) src [] with
  | Some r => r | None => [] end.
(* ... backwards (ancestors-or-self): pgmpy's _get_ancestors_of *)
Definition anc_of (g : digraph) (src : list node) : list node :=
  match search node Nat.eqb (parents g) (length (nodes g) + length src) src [] with
  | Some r => r | None => [] end.

(* directed path u ->* v (length >= 0) *)
Inductive dpath (g : digraph) : node -> node -> Prop :=
| dpath_refl u : dpath g u u
| dpath_step u v w : dpath g u v -> In (v, w) (edges g) -> dpath g u w.

Lemma dpath_trans g u v w : dpath g u v -> dpath g v w -> dpath g u w.
Proof. intros H1 H2. induction H2 as [|v w x _ IH He]; [exact H1|]. eapply dpath_step; [apply IH; exact H1|exact He]. Qed.
Lemma dpath_step_l g u v w : In (u, v) (edges g) -> dpath g v w -> dpath g u w.
Proof. intros H1 H2. eapply dpath_trans; [|exact H2]. eapply dpath_step; [apply dpath_refl|exact H1]. Qed.

Lemma dpath_ind_left g (P : node -> node -> Prop) :
  (forall u, P u u) ->
  (forall u v w, In (u, v) (edges g) -> dpath g v w -> P v w -> P u w) ->
  forall u w, dpath g u w -> P u w.
Proof.
  intros Hr Hs u w H.
  assert (G : forall u v, dpath g u v -> forall w, dpath g v w -> P v w -> P u w).
  { clear u w H. intros u v H. induction H as [u|u v v' _ IH He]; intros w Hp HP.
    - exact HP.
    - apply IH; [eapply dpath_step_l; eauto|]. eapply Hs; eauto. }
  apply (G u w H w); [apply dpath_refl|apply Hr].
Qed.

Lemma reach_children_dpath g src x :
  reach node (children g) src x <-> exists s, In s src /\ dpath g s x.
Proof.
  split.
  - intros H. induction H as [x Hx|x y _ [s [Hs Hp]] Hy].
    + exists x. split; [exact Hx|apply dpath_refl].
    + exists s. split; [exact Hs|]. eapply dpath_step; [exact Hp|]. apply In_children. exact Hy.
  - intros [s [Hs Hp]]. induction Hp as [u|u v w _ IH Hvw].
    + apply reach_src. exact Hs.
    + eapply reach_step; [apply IH; exact Hs|]. apply In_children. exact Hvw.
Qed.
Lemma reach_parents_dpath g src x :
  reach node (parents g) src x <-> exists s, In s src /\ dpath g x s.
Proof.
  split.
  - intros H. induction H as [x Hx|x y _ [s [Hs Hp]] Hy].
    + exists x. split; [exact Hx|apply dpath_refl].
    + exists s. split; [exact Hs|]. eapply dpath_step_l; [|exact Hp]. apply In_parents. exact Hy.
  - intros [s [Hs Hp]]. revert Hs.
    apply (dpath_ind_left g (fun x s => In s src -> reach node (parents g) src x)); [| |exact Hp].
    + intros u Hu. apply reach_src. exact Hu.
    + intros u v w He _ IH Hw. eapply reach_step; [apply IH; exact Hw|]. apply In_parents. exact He.
Qed.

(* fuel is sufficient on well-formed graphs *)
Lemma search_children_total g src :
  wf_graph g -> exists r, search node Nat.eqb (children g) (length (nodes g) + length src) src [] = Some r.
Proof.
  intros [Hn He].
  (* universe = nodes g ++ src : closed under children *)
  apply (search_fuel_enough node Nat.eqb nat_eqb_spec (children g) (nodes g ++ src)).
  - intros x y _ Hy. apply In_children in Hy. apply in_or_app. left. apply (He _ _ Hy).
  - intros z Hz. apply in_or_app. right. exact Hz.
  - intros z [].
  - constructor.
  - rewrite app_length. simpl. lia.
Qed.
Lemma search_parents_total g src :
  wf_graph g -> exists r, search node Nat.eqb (parents g) (length (nodes g) + length src) src [] = Some r.
Proof.
  intros [Hn He].
  apply (search_fuel_enough node Nat.eqb nat_eqb_spec (parents g) (nodes g ++ src)).
  - intros x y _ Hy. apply In_parents in Hy. apply in_or_app. left. apply (He _ _ Hy).
  - intros z Hz. apply in_or_app. right. exact Hz.
  - intros z [].
  - constructor.
  - rewrite app_length. simpl. lia.
Qed.

Theorem desc_of_spec g src x :
  wf_graph g -> (In x (desc_of g src) <-> exists s, In s src /\ dpath g s x).
Proof.
  intros Hw. unfold desc_of. destruct (search_children_total g src Hw) as [r Hr]. rewrite Hr.
  rewrite (search_correct node Nat.eqb nat_eqb_spec (children g) _ _ _ Hr).
  apply reach_children_dpath.
Qed.
Theorem anc_of_spec g src x :
  wf_graph g -> (In x (anc_of g src) <-> exists s, In s src /\ dpath g x s).
Proof.
  intros Hw. unfold anc_of. destruct (search_parents_total g src Hw) as [r Hr]. rewrite Hr.
  rewrite (search_correct node Nat.eqb nat_eqb_spec (parents g) _ _ _ Hr).
  apply reach_parents_dpath.
Qed.

(* nx.has_path(g, u, v) for u in g *)
Definition has_path (g : digraph) (u v : node) : bool := memn v (desc_of g [u]).
Lemma has_path_spec g u v : wf_graph g -> (has_path g u v = true <-> dpath g u v).
Proof.
  intros Hw. unfold has_path. rewrite memn_In, (desc_of_spec g [u] v Hw). split.
  - intros [s [[Hs|[]] Hp]]. subst. exact Hp.
  - intros H. exists u. split; [left; reflexivity|exact H].
Qed.

(* acyclicity: no edge (u,v) with a path v ->* u *)
Definition acyclic (g : digraph) : Prop := forall u v, In (u, v) (edges g) -> ~ dpath g v u.
Definition acyclicb (g : digraph) : bool :=
  forallb (fun e => negb (has_path g (snd e) (fst e))) (edges g).
Lemma acyclicb_spec g : wf_graph g -> (acyclicb g = true <-> acyclic g).
Proof.
  intros Hw. unfold acyclicb, acyclic. rewrite forallb_forall. split.
  - intros H u v He Hp. specialize (H (u, v) He). simpl in H.
    apply (has_path_spec g v u Hw) in Hp. rewrite Hp in H. discriminate.
  - intros H [u v] He. simpl. destruct (has_path g v u) eqn:E; [|reflexivity].
    apply (has_path_spec g v u Hw) in E. exfalso. exact (H u v He E).
Qed.
