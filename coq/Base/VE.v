(* Sum-product (or max-product: any csr) variable elimination over the reference factor algebra, and
   its correctness for EVERY elimination order:  the product of the factors left after eliminating
   [order] equals the sum over [order] of the product of the initial factors, pointwise. *)
From Coq Require Import List Arith Lia PeanoNat Bool.
From PV Require Import Base.Semiring Base.Ravel Base.FinSum Base.RefFactor.
Import ListNotations.

Section VE.
Variable R : csr.
Variable card : var -> nat.
Notation factor := (factor R).
Notation feval := (feval R card).
Notation wf := (wf R card).
Notation valid := (valid card).
Notation fok := (fok R card).
Notation eval_prod := (eval_prod R card).
Notation fprod_list := (fprod_list R card).
Notation fmarg := (fmarg R card).

(* one elimination step: multiply the live factors that mention v, sum v out, keep the others *)
Definition mentions (v : var) (f : factor) : bool := memv v (fvars f).
Definition ve_step (L : list factor) (v : var) : list factor :=
  fmarg [v] (fprod_list (filter (mentions v) L)) :: filter (fun f => negb (mentions v f)) L.
Definition ve_run (L : list factor) (order : list var) : list factor := fold_left ve_step order L.

Definition occurs (v : var) (L : list factor) : Prop := exists f, In f L /\ In v (fvars f).

(* ---- sums restricted to valid assignments --------------------------------------------- *)
Lemma sum_over_ext_valid vs : forall (g h : asg -> R) a, valid a ->
  (forall b, valid b -> g b = h b) ->
  sum_over vs (map card vs) g a = sum_over vs (map card vs) h a.
Proof.
  induction vs as [|v vs IH]; intros g h a Ha H; [apply H; exact Ha|].
  cbn [map sum_over]. apply sum_list_ext. intros i Hi. apply in_seq in Hi.
  apply IH; [apply valid_upd; [exact Ha|lia]|exact H].
Qed.

Lemma ok_sum_over_valid vs : forall (g : asg -> R) a, valid a ->
  (forall b, valid b -> ok (g b)) -> ok (sum_over vs (map card vs) g a).
Proof.
  induction vs as [|v vs IH]; intros g a Ha H; [apply H; exact Ha|].
  cbn [map sum_over]. apply ok_sum_list. apply Forall_forall. intros x Hx.
  apply in_map_iff in Hx. destruct Hx as [i [<- Hi]]. apply in_seq in Hi.
  apply IH; [apply valid_upd; [exact Ha|lia]|exact H].
Qed.

(* f (ignoring v, ok on valid assignments) moves out of a sum over v *)
Lemma sum1_mul_r v (f g : asg -> R) a : valid a ->
  ignores f v -> (forall b, valid b -> ok (f b)) ->
  sum_over [v] [card v] (fun b => mul (g b) (f b)) a = mul (sum_over [v] [card v] g a) (f a).
Proof.
  intros Ha Hi Hok. cbn [sum_over].
  rewrite (mul_comm R _ (f a)). rewrite sum_list_mul_l by (apply Hok; exact Ha). rewrite map_map.
  apply sum_list_ext. intros i _. rewrite (Hi a i). apply mul_comm.
Qed.

(* ---- products over partitions ---------------------------------------------------------- *)
Lemma prod_list_filter_split (p : factor -> bool) (L : list factor) a :
  eval_prod L a = mul (eval_prod (filter p L) a) (eval_prod (filter (fun f => negb (p f)) L) a).
Proof.
  unfold RefFactor.eval_prod. induction L as [|f L IH]; simpl; [symmetry; apply mul_1_l|].
  rewrite IH. destruct (p f); simpl.
  - symmetry. rewrite <- mul_assoc. reflexivity.
  - rewrite (mul_assoc R). rewrite (mul_comm R (feval f a)). rewrite <- (mul_assoc R). reflexivity.
Qed.

Lemma eval_prod_ext L : ext (eval_prod L).
Proof.
  intros a b Hab. unfold RefFactor.eval_prod. f_equal. apply map_ext. intros f. apply feval_ext. exact Hab.
Qed.

Lemma eval_prod_ignores L v : (forall f, In f L -> ~ In v (fvars f)) -> ignores (eval_prod L) v.
Proof.
  intros H a i. unfold RefFactor.eval_prod. f_equal. apply map_ext_in. intros f Hf.
  apply (depends_only_ignores R (feval f) (fvars f) v); [apply feval_depends_only|apply H; exact Hf].
Qed.

Lemma ok_eval_prod L a : valid a -> Forall fok L -> ok (eval_prod L a).
Proof.
  intros Ha H. unfold RefFactor.eval_prod. apply ok_prod_list. apply Forall_forall. intros x Hx.
  apply in_map_iff in Hx. destruct Hx as [f [<- Hf]]. rewrite Forall_forall in H. apply H; assumption.
Qed.

Lemma eval_prod_cons f L a : eval_prod (f :: L) a = mul (feval f a) (eval_prod L a).
Proof. reflexivity. Qed.

(* ---- scopes ------------------------------------------------------------------------------ *)
Lemma In_fvars_fold_fprod (fs : list factor) : forall acc x,
  In x (fvars (fold_left (fprod R card) fs acc)) <-> In x (fvars acc) \/ exists f, In f fs /\ In x (fvars f).
Proof.
  induction fs as [|f fs IH]; intros acc x; simpl.
  - split; [intros H; left; exact H|intros [H|[f [[] _]]]; exact H].
  - rewrite IH. rewrite fvars_fprod, In_vunion. split.
    + intros [[H|H]|[g [Hg Hx]]]; [left; exact H|right; exists f; auto|right; exists g; auto].
    + intros [H|[g [[->|Hg] Hx]]]; [left; left; exact H|left; right; exact Hx|right; exists g; auto].
Qed.
Lemma In_fvars_fprod_list fs x : In x (fvars (fprod_list fs)) <-> exists f, In f fs /\ In x (fvars f).
Proof.
  unfold RefFactor.fprod_list. rewrite In_fvars_fold_fprod. split; [intros [[]|H]; exact H|intros H; right; exact H].
Qed.

(* ---- one step ------------------------------------------------------------------------------ *)
Lemma ve_step_wf L v : Forall wf L -> Forall wf (ve_step L v).
Proof.
  intros H. unfold ve_step. constructor.
  - apply wf_fmarg. unfold RefFactor.fprod_list. apply wf_fold_fprod; [apply wf_fbuild; constructor|].
    rewrite Forall_forall in *. intros f Hf. apply filter_In in Hf. apply H. apply Hf.
  - rewrite Forall_forall in *. intros f Hf. apply filter_In in Hf. apply H. apply Hf.
Qed.

Lemma ve_step_eval L v a : Forall wf L -> Forall fok L -> valid a -> occurs v L ->
  eval_prod (ve_step L v) a = sum_over [v] [card v] (eval_prod L) a.
Proof.
  intros Hwf Hok Ha [f0 [Hf0 Hv0]].
  set (S := filter (mentions v) L). set (T := filter (fun f => negb (mentions v f)) L).
  assert (HwfS : Forall wf S) by (rewrite Forall_forall in *; intros f Hf; apply filter_In in Hf; apply Hwf, Hf).
  assert (HokT : Forall fok T) by (rewrite Forall_forall in *; intros f Hf; apply filter_In in Hf; apply Hok, Hf).
  assert (HP : wf (fprod_list S)).
  { unfold RefFactor.fprod_list. apply wf_fold_fprod; [apply wf_fbuild; constructor|exact HwfS]. }
  assert (HvP : In v (fvars (fprod_list S))).
  { apply In_fvars_fprod_list. exists f0. split; [|exact Hv0]. apply filter_In. split; [exact Hf0|].
    apply memv_In. exact Hv0. }
  assert (Hint : vinter (fvars (fprod_list S)) [v] = [v]).
  { destruct HP as [Hnd _]. clear - Hnd HvP. unfold vinter.
    induction (fvars (fprod_list S)) as [|x l IH]; [destruct HvP|].
    inversion Hnd as [|? ? Hx Hnd']; subst. simpl. destruct (Nat.eqb x v) eqn:E.
    - apply Nat.eqb_eq in E. subst. simpl. f_equal.
      clear - Hx. induction l as [|y l IH]; [reflexivity|]. simpl.
      destruct (Nat.eqb y v) eqn:E; [apply Nat.eqb_eq in E; subst; exfalso; apply Hx; left; reflexivity|].
      simpl. apply IH. intros H. apply Hx. right. exact H.
    - simpl. apply IH; [exact Hnd'|]. destruct HvP as [->|H]; [rewrite Nat.eqb_refl in E; discriminate|exact H]. }
  unfold ve_step. fold S T. rewrite eval_prod_cons.
  rewrite feval_fmarg by assumption. rewrite Hint. cbn [map].
  (* rhs: split the product *)
  rewrite (sum_over_ext_fun R [v] [card v] (eval_prod L)
             (fun b => mul (eval_prod S b) (eval_prod T b)) a)
    by (intros b; apply (prod_list_filter_split (mentions v))).
  rewrite sum1_mul_r; [|exact Ha| |].
  - f_equal. apply (sum_over_ext_valid [v]); [exact Ha|]. intros b Hb. apply feval_fprod_list; assumption.
  - apply eval_prod_ignores. intros f Hf Hin. apply filter_In in Hf. destruct Hf as [_ Hf].
    apply negb_true_iff in Hf. unfold mentions in Hf. apply memv_false in Hf. contradiction.
  - intros b Hb. apply ok_eval_prod; assumption.
Qed.

Lemma ve_step_fok L v : Forall wf L -> Forall fok L -> Forall fok (ve_step L v).
Proof.
  intros Hwf Hok. unfold ve_step.
  assert (HwfS : Forall wf (filter (mentions v) L))
    by (rewrite Forall_forall in *; intros f Hf; apply filter_In in Hf; apply Hwf, Hf).
  assert (HokS : Forall fok (filter (mentions v) L))
    by (rewrite Forall_forall in *; intros f Hf; apply filter_In in Hf; apply Hok, Hf).
  constructor.
  - intros a Ha. rewrite feval_fmarg; [|unfold RefFactor.fprod_list; apply wf_fold_fprod; [apply wf_fbuild; constructor|exact HwfS]|exact Ha].
    apply ok_sum_over_valid; [exact Ha|]. intros b Hb. rewrite feval_fprod_list by assumption.
    apply ok_eval_prod; assumption.
  - rewrite Forall_forall in *. intros f Hf. apply filter_In in Hf. apply Hok, Hf.
Qed.

Lemma ve_step_occurs L v w : w <> v -> occurs w L -> occurs w (ve_step L v).
Proof.
  intros Hne [f [Hf Hw]]. unfold ve_step. destruct (mentions v f) eqn:E.
  - exists (fmarg [v] (fprod_list (filter (mentions v) L))). split; [left; reflexivity|].
    rewrite fvars_fmarg. apply In_vminus. split.
    + apply In_fvars_fprod_list. exists f. split; [apply filter_In; split; assumption|exact Hw].
    + intros [H|[]]. congruence.
  - exists f. split; [right; apply filter_In; split; [exact Hf|rewrite E; reflexivity]|exact Hw].
Qed.

(* ---- the run: any order -------------------------------------------------------------------- *)
Theorem ve_run_correct order : forall L a,
  Forall wf L -> Forall fok L -> NoDup order -> (forall v, In v order -> occurs v L) -> valid a ->
  eval_prod (ve_run L order) a = sum_over order (map card order) (eval_prod L) a.
Proof.
  induction order as [|v order IH]; intros L a Hwf Hok Hnd Hocc Ha; [reflexivity|].
  inversion Hnd as [|? ? Hv Hnd']; subst.
  cbn [ve_run fold_left]. fold (ve_run (ve_step L v) order).
  rewrite IH; [|apply ve_step_wf; exact Hwf|apply ve_step_fok; assumption|exact Hnd'| |exact Ha].
  2:{ intros w Hw. apply ve_step_occurs; [intros E; subst; contradiction|apply Hocc; right; exact Hw]. }
  rewrite (sum_over_ext_valid order _ (sum_over [v] [card v] (eval_prod L)) a Ha).
  2:{ intros b Hb. apply ve_step_eval; [assumption|assumption|exact Hb|apply Hocc; left; reflexivity]. }
  cbn [map]. rewrite (sum_over_cons R v order (card v) (map card order)).
  symmetry. apply sum_over_swap; [apply eval_prod_ext| |reflexivity].
  intros w [<-|[]]. exact Hv.
Qed.

Lemma ve_run_wf order : forall L, Forall wf L -> Forall wf (ve_run L order).
Proof. induction order as [|v order IH]; intros L H; [exact H|]. apply IH. apply ve_step_wf. exact H. Qed.

(* corollary: the result does not depend on the order *)
Corollary ve_run_order_irrelevant o1 o2 L a :
  Forall wf L -> Forall fok L -> NoDup o1 -> NoDup o2 ->
  (forall v, In v o1 <-> In v o2) -> (forall v, In v o1 -> occurs v L) -> valid a ->
  sum_over o1 (map card o1) (eval_prod L) a = sum_over o2 (map card o2) (eval_prod L) a ->
  eval_prod (ve_run L o1) a = eval_prod (ve_run L o2) a.
Proof.
  intros Hwf Hok H1 H2 Heq Hocc Ha Hs.
  rewrite !ve_run_correct; try assumption. intros v Hv. apply Hocc. apply Heq. exact Hv.
Qed.
End VE.
