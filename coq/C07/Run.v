(* C07 entry points for the extracted driver: sx -> sx *)
From Coq Require Import List Bool Arith ZArith QArith Qcanon.
From PV Require Import Base.Sx Base.Ravel Base.Semiring Base.FinSum Base.RefFactor C07.Dist C07.Model.
Import ListNotations.

Definition dec_cpd (s : sx) : option cpd :=
  match s with
  | SL [v; ps; vs] =>
      match sx_nat v, sx_list sx_nat ps, sx_list sx_Qc vs with
      | Some v', Some ps', Some vs' => Some {| cvar := v'; cpars := ps'; cvals := vs' |}
      | _, _, _ => None
      end
  | _ => None
  end.
(* [nodes cpds latents cards names] *)
Definition dec_bn (s : sx) : option bn :=
  match s with
  | SL [n; c; l; k; m] =>
      match sx_list sx_nat n, sx_list dec_cpd c, sx_list sx_nat l,
            sx_list (sx_pair sx_nat sx_nat) k, sx_list (sx_pair sx_nat (sx_list sx_Z)) m with
      | Some n', Some c', Some l', Some k', Some m' =>
          Some {| bnodes := n'; bcpds := c'; blat := l'; bcard := k'; bnames := m' |}
      | _, _, _, _, _ => None
      end
  | _ => None
  end.
Definition sx_opt {A} (d : sx -> option A) (s : sx) : option (option A) :=
  match s with
  | SL [] => Some None
  | SL [x] => match d x with Some y => Some (Some y) | None => None end
  | _ => None
  end.
Definition dec_factor (s : sx) : option qfactor :=
  match s with
  | SL [vs; xs] => match sx_list sx_nat vs, sx_list sx_Qc xs with
                   | Some vs', Some xs' => Some (Build_factor QR vs' xs')
                   | _, _ => None
                   end
  | _ => None
  end.

Definition of_Z (z : Z) : sx := SZ z.
Definition of_calls (o : ost) : sx :=
  of_list (fun c => SL [of_list of_Qc (fst c); of_nat (snd c)]) (rev (ocalls o)).
Definition of_frame (f : frame) : sx := of_list (of_list (of_option of_Z)) f.
Definition mk_ost (draws : list nat) : ost := {| ostream := draws; ocalls := [] |}.

(* order must list every node of the model once, parents before children (what nx.topological_sort
   promises); error 8 otherwise *)
Fixpoint topo_okb (b : bn) (seen : list var) (order : list var) : bool :=
  match order with
  | [] => true
  | v :: rest =>
      match get_cpd b v with
      | None => false
      | Some c => memv' v (bnodes b) && negb (memv' v seen) && forallb (fun p => memv' p seen) (cpars c)
                  && topo_okb b (v :: seen) rest
      end
  end.
Definition order_okb (b : bn) (order : list var) : bool :=
  topo_okb b [] order && Nat.eqb (length order) (length (bnodes b)).
Definition E_ORDER : Z := 8.

(* [bn order size include_latents partial draws] -> [columns frame calls consumed] *)
Definition run_c07_forward (s : sx) : sx :=
  match s with
  | SL [sb; so; sn; si; sp; sd] =>
      match dec_bn sb, sx_list sx_nat so, sx_nat sn, sx_bool si,
            sx_list (sx_pair sx_nat (sx_list sx_nat)) sp, sx_list sx_nat sd with
      | Some b, Some order, Some size, Some incl, Some partial, Some draws =>
          if order_okb b order then
            match forward_rows b order size partial (mk_ost draws) with
            | Err e => sx_err e
            | Ok (rows, o) =>
                sx_ok (SL [of_list of_nat (out_columns b incl); of_frame (named_frame b incl rows);
                           of_calls o; of_nat (length draws - length (ostream o))])
            end
          else sx_err E_ORDER
      | _, _, _, _, _, _ => bad_request
      end
  | _ => bad_request
  end.

(* [bn order evidence size include_latents partial psize fuel draws] -> [columns frame calls batch_sizes consumed] *)
Definition run_c07_rejection (s : sx) : sx :=
  match s with
  | SL [sb; so; se; sn; si; sp; sps; sf; sd] =>
      match dec_bn sb, sx_list sx_nat so, sx_list (sx_pair sx_nat sx_Z) se, sx_nat sn, sx_bool si,
            sx_list (sx_pair sx_nat (sx_list sx_nat)) sp, sx_opt sx_nat sps, sx_nat sf, sx_list sx_nat sd with
      | Some b, Some order, Some ev, Some size, Some incl, Some partial, Some psize, Some fuel, Some draws =>
          if order_okb b order then
            match rejection_rows fuel b order ev size partial psize (mk_ost draws) with
            | Err e => sx_err e
            | Ok (rows, sizes, o) =>
                sx_ok (SL [of_list of_nat (out_columns b incl); of_frame (named_frame b incl rows);
                           of_calls o; of_list of_nat sizes; of_nat (length draws - length (ostream o))])
            end
          else sx_err E_ORDER
      | _, _, _, _, _, _, _, _, _ => bad_request
      end
  | _ => bad_request
  end.

(* [bn order evidence size include_latents draws] -> [columns frame weights calls consumed] *)
Definition run_c07_lw (s : sx) : sx :=
  match s with
  | SL [sb; so; se; sn; si; sd] =>
      match dec_bn sb, sx_list sx_nat so, sx_list (sx_pair sx_nat sx_Z) se, sx_nat sn, sx_bool si,
            sx_list sx_nat sd with
      | Some b, Some order, Some ev, Some size, Some incl, Some draws =>
          if order_okb b order then
            match lw_rows b order ev size (mk_ost draws) with
            | Err e => sx_err e
            | Ok (rows, o) =>
                sx_ok (SL [of_list of_nat (out_columns b incl); of_frame (named_frame b incl (map fst rows));
                           of_list of_Qc (map snd rows);
                           of_calls o; of_nat (length draws - length (ostream o))])
            end
          else sx_err E_ORDER
      | _, _, _, _, _, _ => bad_request
      end
  | _ => bad_request
  end.

Definition of_kernel (t : list (list nat * option (list Qc))) : sx :=
  of_list (fun e => SL [of_list of_nat (fst e); of_option (of_list of_Qc) (snd e)]) t.
(* [bn vars factors] -> per variable of vars: [[tuple, [weights] | []] ...]; factors = [] means the
   Bayesian-network kernel (factors = the CPDs in model.cpds order) *)
Definition run_c07_kernel (s : sx) : sx :=
  match s with
  | SL [sb; sv; sf] =>
      match dec_bn sb, sx_list sx_nat sv, sx_list dec_factor sf with
      | Some b, Some vars, Some fs =>
          let fs' := match fs with [] => bn_factors b | _ => fs end in
          sx_ok (of_list (fun v => SL [of_nat v; of_kernel (kernel_table b fs' vars v)]) vars)
      | _, _, _ => bad_request
      end
  | _ => bad_request
  end.

(* [bn vars factors size start draws] -> [rows calls consumed] *)
Definition run_c07_gibbs (s : sx) : sx :=
  match s with
  | SL [sb; sv; sf; sn; st; sd] =>
      match dec_bn sb, sx_list sx_nat sv, sx_list dec_factor sf, sx_nat sn, sx_list sx_nat st, sx_list sx_nat sd with
      | Some b, Some vars, Some fs, Some size, Some start, Some draws =>
          let fs' := match fs with [] => bn_factors b | _ => fs end in
          if Nat.eqb (length start) (length vars) then
            match gibbs_sample b fs' vars size start (mk_ost draws) with
            | Err e => sx_err e
            | Ok (rows, o) =>
                sx_ok (SL [of_list (of_list of_nat) rows; of_calls o; of_nat (length draws - length (ostream o))])
            end
          else sx_err E_INPUT
      | _, _, _, _, _, _ => bad_request
      end
  | _ => bad_request
  end.

(* simulate(): [bn nodes' order' do evidence virt size include_latents partial psize fuel draws margs]
   do / evidence = [(var, state name)], virt = [(new node id, var, values)]
   -> [columns frame calls batch_sizes consumed] ; columns = simulate's final column selection *)
Definition run_c07_simulate (s : sx) : sx :=
  match s with
  | SL [sb; sn'; so; sdo; se; svi; sn; si; sp; sps; sf; sd; smg] =>
      match dec_bn sb, sx_list sx_nat sn', sx_list sx_nat so, sx_list (sx_pair sx_nat sx_Z) sdo,
            sx_list (sx_pair sx_nat sx_Z) se, sx_list (sx_triple sx_nat sx_nat (sx_list sx_Qc)) svi with
      | Some b, Some nodes', Some order, Some dos, Some ev, Some virt =>
          match sx_nat sn, sx_bool si, sx_list (sx_pair sx_nat (sx_list sx_nat)) sp, sx_opt sx_nat sps,
                sx_nat sf, sx_list sx_nat sd, sx_list sx_nat smg with
          | Some size, Some incl, Some partial, Some psize, Some fuel, Some draws, Some margs =>
              let b' := simulate_bn b nodes' dos margs virt in
              let ev' := ev ++ dos ++ map (fun t => (fst (fst t), 0%Z)) virt in
              if order_okb b' order then
                match rejection_rows fuel b' order ev' size partial psize (mk_ost draws) with
                | Err e => sx_err e
                | Ok (rows, sizes, o) =>
                    (* rejection_sample(include_latents) drops model.latents; simulate then selects
                       nodes(self) - latents unless include_latents *)
                    let cols := if incl then bnodes b'
                                else filter (fun v => negb (memv' v (blat b))) (bnodes b) in
                    sx_ok (SL [of_list of_nat cols; of_frame (map (named_row b' cols) rows);
                               of_calls o; of_list of_nat sizes; of_nat (length draws - length (ostream o))])
                end
              else sx_err E_ORDER
          | _, _, _, _, _, _, _ => bad_request
          end
      | _, _, _, _, _, _ => bad_request
      end
  | _ => bad_request
  end.

(* [bn vars start] (start: integers, possibly negative or too large) -> 1 when every start value is a state number
   of its variable (0 <= s < card), else 0: the verdict MarkovChain._check_state must reach (ValueError iff 0) *)
Definition run_c07_start_ok (s : sx) : sx :=
  match s with
  | SL [sb; sv; st] =>
      match dec_bn sb, sx_list sx_nat sv, sx_list sx_Z st with
      | Some b, Some vars, Some start =>
          if Nat.eqb (length start) (length vars)
          then sx_ok (of_bool (forallb (fun vz => (0 <=? snd vz)%Z && (snd vz <? Z.of_nat (cardf b (fst vz)))%Z)
                                       (combine vars start)))
          else sx_err E_INPUT
      | _, _, _ => bad_request
      end
  | _ => bad_request
  end.
