(* C07 proofs, part 4: the Gibbs kernel is the full conditional (algebraic core) *)
From Coq Require Import List Bool Arith ZArith QArith Qcanon Lia.
From PV Require Import Base.Sx Base.Ravel Base.Semiring Base.FinSum Base.RefFactor C07.Dist C07.Model.
Import ListNotations.
Local Open Scope Qc_scope.

Section Gibbs.
Variable b : bn.
Variable fs : list qfactor.      (* ALL factors of the model (the CPDs of a Bayesian network) *)
Variable v : var.
Variable sg : asg.               (* the current state of the chain *)

Definition evp (l : list qfactor) (a : asg) : Qc := eval_prod QR (cardf b) l a.
(* un-normalised joint with v := s : the product of ALL factors *)
Definition joint_at (s : nat) : Qc := evp fs (upd sg v s).
(* what the kernel multiplies: only the factors whose scope contains v *)
Definition local_at (s : nat) : Qc := evp (factors_of fs v) (upd sg v s).
Definition states : list nat := seq 0 (cardf b v).
(* P(v = . | all other variables as in sg), defined when the normaliser is not 0 *)
Definition full_conditional : list Qc :=
  map (fun s => joint_at s / qsum (map joint_at states)) states.
Definition full_cond_defined : Prop := qsum (map joint_at states) <> 0.

Definition rest_const : Qc := evp (filter (fun f => negb (memv v (fvars f))) fs) sg.

Lemma evp_cons f l a : evp (f :: l) a = feval QR (cardf b) f a * evp l a.
Proof. reflexivity. Qed.
Lemma evp_nil a : evp [] a = 1.
Proof. reflexivity. Qed.

Lemma evp_split (p : qfactor -> bool) l a :
  evp l a = evp (filter p l) a * evp (filter (fun f => negb (p f)) l) a.
Proof.
  induction l as [|f l IH]; [rewrite !evp_nil; ring|]. simpl filter. rewrite evp_cons, IH.
  destruct (p f); simpl negb; cbv iota; rewrite evp_cons; ring.
Qed.

Lemma evp_ignores l s : (forall f, In f l -> ~ In v (fvars f)) -> evp l (upd sg v s) = evp l sg.
Proof.
  induction l as [|f l IH]; intros H; [reflexivity|]. rewrite !evp_cons. rewrite IH by (intros g Hg; apply H; right; exact Hg).
  f_equal. apply (feval_depends_only QR (cardf b) f). intros u Hu. apply upd_other. intros ->.
  apply (H f); [left; reflexivity|exact Hu].
Qed.

Lemma joint_local s : joint_at s = local_at s * rest_const.
Proof.
  unfold joint_at, local_at, rest_const, factors_of. rewrite (evp_split (fun f => memv v (fvars f)) fs). f_equal.
  apply evp_ignores. intros f Hf. apply filter_In in Hf. destruct Hf as [_ Hf].
  apply negb_true_iff in Hf. apply memv_false in Hf. exact Hf.
Qed.

(* the normalised product of the factors containing v IS the full conditional: the factors without v
   are constant in v's state and cancel *)
Theorem local_normalised_is_full_conditional :
  full_cond_defined -> normalise (map local_at states) = Some full_conditional.
Proof.
  unfold full_cond_defined. intros Hd.
  assert (Hs : qsum (map joint_at states) = rest_const * qsum (map local_at states)).
  { rewrite <- qsum_map_mul. apply qsum_map_ext. intros s _. rewrite joint_local. ring. }
  assert (Hc : rest_const <> 0) by (intros E; apply Hd; rewrite Hs, E; ring).
  assert (Hl : qsum (map local_at states) <> 0) by (intros E; apply Hd; rewrite Hs, E; ring).
  unfold normalise. destruct (Qc_eq_dec (qsum (map local_at states)) 0) as [E|_]; [contradiction|].
  f_equal. unfold full_conditional. rewrite map_map. apply map_ext. intros s.
  rewrite Hs, joint_local. field. split; assumption.
Qed.
End Gibbs.
