(* Finite (sub-)distributions over Qc as weighted lists, with ret / bind / expectation.
   The ONLY probabilistic assumption of C07 lives here, as a definition: the law of
   "numpy.random.choice(range(len p), p = p)" is [draw p] (index i with weight p_i), and successive
   draws are independent (sequencing = [bind]).  Everything else is algebra over lists. *)
From Coq Require Import List Bool Arith QArith Qcanon Lia.
Import ListNotations.
Local Open Scope Qc_scope.

Definition qsum (l : list Qc) : Qc := fold_right Qcplus 0 l.
Definition qprod (l : list Qc) : Qc := fold_right Qcmult 1 l.

Lemma qsum_app a b : qsum (a ++ b) = qsum a + qsum b.
Proof. induction a as [|x a IH]; simpl; [ring|rewrite IH; ring]. Qed.
Lemma qsum_map_mul {A} (c : Qc) (f : A -> Qc) l : qsum (map (fun x => c * f x) l) = c * qsum (map f l).
Proof. induction l as [|x l IH]; simpl; [ring|rewrite IH; ring]. Qed.
Lemma qsum_map_ext {A} (f g : A -> Qc) l : (forall x, In x l -> f x = g x) -> qsum (map f l) = qsum (map g l).
Proof.
  induction l as [|x l IH]; intros H; simpl; [reflexivity|].
  rewrite H by (left; reflexivity). rewrite IH; [reflexivity|]. intros y Hy. apply H. right. exact Hy.
Qed.
Lemma qsum_map_zero {A} (f : A -> Qc) l : (forall x, In x l -> f x = 0) -> qsum (map f l) = 0.
Proof.
  induction l as [|x l IH]; intros H; simpl; [reflexivity|].
  rewrite H by (left; reflexivity). rewrite IH; [ring|]. intros y Hy. apply H. right. exact Hy.
Qed.
Lemma qsum_map_add {A} (f g : A -> Qc) l : qsum (map (fun x => f x + g x) l) = qsum (map f l) + qsum (map g l).
Proof. induction l as [|x l IH]; simpl; [ring|rewrite IH; ring]. Qed.
Lemma qprod_app a b : qprod (a ++ b) = qprod a * qprod b.
Proof. induction a as [|x a IH]; simpl; [ring|rewrite IH; ring]. Qed.
Lemma qprod_zero l : In 0 l -> qprod l = 0.
Proof. induction l as [|x l IH]; [intros []|]. intros [H|H]; simpl; [subst; ring|rewrite IH by exact H; ring]. Qed.

(* pick out one index of a sum over seq *)
Lemma qsum_seq_single (f : nat -> Qc) (k a n : nat) :
  (a <= k < a + n)%nat -> (forall s, s <> k -> f s = 0) -> qsum (map f (seq a n)) = f k.
Proof.
  revert a. induction n as [|n IH]; intros a Hk Hz; [lia|]. simpl.
  destruct (Nat.eq_dec a k) as [->|Hne].
  - rewrite qsum_map_zero; [ring|]. intros s Hs. apply in_seq in Hs. apply Hz. lia.
  - rewrite (Hz a Hne). rewrite IH; [ring|lia|exact Hz].
Qed.
Lemma qsum_seq_none (f : nat -> Qc) (a n : nat) :
  (forall s, (a <= s < a + n)%nat -> f s = 0) -> qsum (map f (seq a n)) = 0.
Proof. intros H. apply qsum_map_zero. intros s Hs. apply in_seq in Hs. apply H. exact Hs. Qed.

Definition dist (X : Type) := list (X * Qc).

(* expectation of g; weight of an event; total mass *)
Definition ex {X} (g : X -> Qc) (d : dist X) : Qc := qsum (map (fun ap => snd ap * g (fst ap)) d).
Definition ind (b : bool) : Qc := if b then 1 else 0.
Definition wt {X} (P : X -> bool) (d : dist X) : Qc := ex (fun a => ind (P a)) d.
Definition mass {X} (d : dist X) : Qc := ex (fun _ => 1) d.

Definition ret {X} (a : X) : dist X := [(a, 1)].
Definition scale {X} (p : Qc) (d : dist X) : dist X := map (fun bq => (fst bq, p * snd bq)) d.
Definition bind {X Y} (d : dist X) (f : X -> dist Y) : dist Y :=
  flat_map (fun ap => scale (snd ap) (f (fst ap))) d.
(* the zero measure: a sampler run that raised *)
Definition fail {X} : dist X := [].

(* TRUSTED (see harness TRUSTED_BASE): drawing an index with weight vector p has law p *)
Definition draw (p : list Qc) : dist nat := combine (seq 0 (length p)) p.

Lemma ex_ret {X} (g : X -> Qc) a : ex g (ret a) = g a.
Proof. unfold ex, ret. simpl. ring. Qed.
Lemma ex_scale {X} (g : X -> Qc) p (d : dist X) : ex g (scale p d) = p * ex g d.
Proof.
  unfold ex, scale. rewrite map_map. simpl. rewrite <- qsum_map_mul. apply qsum_map_ext.
  intros x _. ring.
Qed.
Lemma ex_app {X} (g : X -> Qc) (d1 d2 : dist X) : ex g (d1 ++ d2) = ex g d1 + ex g d2.
Proof. unfold ex. rewrite map_app. apply qsum_app. Qed.
Theorem ex_bind {X Y} (g : Y -> Qc) (d : dist X) (f : X -> dist Y) :
  ex g (bind d f) = ex (fun a => ex g (f a)) d.
Proof.
  induction d as [|[a p] d IH]; [reflexivity|].
  unfold bind in *. simpl flat_map. rewrite ex_app, ex_scale, IH. unfold ex at 3. simpl. reflexivity.
Qed.
Lemma ex_fail {X} (g : X -> Qc) : ex g (@fail X) = 0.
Proof. reflexivity. Qed.
Lemma ex_ext {X} (g h : X -> Qc) (d : dist X) :
  (forall a p, In (a, p) d -> g a = h a) -> ex g d = ex h d.
Proof. intros H. unfold ex. apply qsum_map_ext. intros [a p] Hin. simpl. rewrite (H a p Hin). reflexivity. Qed.

(* expectation under a draw = sum over indices *)
Lemma ex_draw_aux (g : nat -> Qc) (p : list Qc) : forall a,
  ex g (combine (seq a (length p)) p) = qsum (map (fun s => nth (s - a) p 0 * g s) (seq a (length p))).
Proof.
  induction p as [|x p IH]; intros a; [reflexivity|].
  simpl length. simpl seq. simpl combine. unfold ex in *. simpl map. simpl qsum.
  rewrite IH. rewrite Nat.sub_diag. simpl nth. f_equal.
  apply qsum_map_ext. intros s Hs. apply in_seq in Hs.
  replace (s - a)%nat with (S (s - S a)) by lia. reflexivity.
Qed.
Theorem ex_draw (g : nat -> Qc) (p : list Qc) :
  ex g (draw p) = qsum (map (fun s => nth s p 0 * g s) (seq 0 (length p))).
Proof.
  unfold draw. rewrite ex_draw_aux. apply qsum_map_ext. intros s _. rewrite Nat.sub_0_r. reflexivity.
Qed.
Corollary wt_draw (p : list Qc) (k : nat) : wt (Nat.eqb k) (draw p) = nth k p 0.
Proof.
  unfold wt. rewrite ex_draw. destruct (Nat.lt_ge_cases k (length p)) as [Hlt|Hge].
  - rewrite (qsum_seq_single _ k) ; [rewrite Nat.eqb_refl; simpl; ring|lia|].
    intros s Hs. destruct (Nat.eqb k s) eqn:E; [apply Nat.eqb_eq in E; congruence|simpl; ring].
  - rewrite nth_overflow by exact Hge. apply qsum_seq_none. intros s Hs.
    destruct (Nat.eqb k s) eqn:E; [apply Nat.eqb_eq in E; lia|simpl; ring].
Qed.
Corollary mass_draw (p : list Qc) : mass (draw p) = qsum p.
Proof.
  unfold mass. rewrite ex_draw.
  assert (H : forall a (l : list Qc),
             qsum (map (fun s => nth (s - a) l 0 * 1) (seq a (length l))) = qsum l).
  { intros a l. revert a. induction l as [|x l IH]; intros a; [reflexivity|].
    simpl length. simpl seq. simpl map. simpl qsum. rewrite Nat.sub_diag. simpl nth.
    rewrite <- (IH (S a)). rewrite Qcmult_1_r. f_equal. apply qsum_map_ext. intros s Hs. apply in_seq in Hs.
    replace (s - a)%nat with (S (s - S a)) by lia. reflexivity. }
  rewrite <- (H 0%nat p). apply qsum_map_ext. intros s _. rewrite Nat.sub_0_r. reflexivity.
Qed.

(* every outcome in the support satisfies Q *)
Definition always {X} (Q : X -> Prop) (d : dist X) : Prop := forall a p, In (a, p) d -> Q a.
Lemma always_ret {X} (Q : X -> Prop) a : Q a -> always Q (ret a).
Proof. intros H b p [E|[]]. inversion E; subst. exact H. Qed.
Lemma always_bind {X Y} (Q : Y -> Prop) (d : dist X) (f : X -> dist Y) :
  (forall a p, In (a, p) d -> always Q (f a)) -> always Q (bind d f).
Proof.
  intros H b q Hin. unfold bind in Hin. apply in_flat_map in Hin. destruct Hin as [[a p] [Ha Hb]].
  unfold scale in Hb. apply in_map_iff in Hb. destruct Hb as [[b' q'] [E Hb]]. simpl in E. inversion E; subst.
  eapply H; eassumption.
Qed.
Lemma always_fail {X} (Q : X -> Prop) : always Q (@fail X).
Proof. intros a p []. Qed.
Lemma always_draw (p : list Qc) : always (fun s => (s < length p)%nat) (draw p).
Proof.
  intros s q Hin. unfold draw in Hin. apply in_combine_l in Hin. apply in_seq in Hin. lia.
Qed.
Lemma ex_always_zero {X} (g : X -> Qc) (Q : X -> Prop) (d : dist X) :
  always Q d -> (forall a, Q a -> g a = 0) -> ex g d = 0.
Proof.
  intros Ha Hz. unfold ex. apply qsum_map_zero. intros [a p] Hin. simpl. rewrite (Hz a (Ha a p Hin)). ring.
Qed.

(* conditioning on an event: keep the outcomes that satisfy it (un-normalised) *)
Definition restrict {X} (P : X -> bool) (d : dist X) : dist X := filter (fun ap => P (fst ap)) d.
Lemma ex_restrict {X} (g : X -> Qc) (P : X -> bool) (d : dist X) :
  ex g (restrict P d) = ex (fun a => ind (P a) * g a) d.
Proof.
  induction d as [|[a p] d IH]; [reflexivity|]. unfold restrict in *. simpl filter.
  destruct (P a) eqn:E.
  - unfold ex in *. simpl map. simpl qsum. rewrite IH. rewrite E. simpl. ring.
  - rewrite IH. unfold ex. simpl map. simpl qsum. rewrite E. simpl. ring.
Qed.
Lemma always_restrict {X} (P : X -> bool) (d : dist X) : always (fun a => P a = true) (restrict P d).
Proof. intros a p Hin. unfold restrict in Hin. apply filter_In in Hin. exact (proj2 Hin). Qed.

