(* C07 model: pgmpy's samplers as DRAW-ORACLE functions (executable; no proofs here).

   Python side                                     Gallina side
   ---------------------------------------------   ------------------------------------------------
   TabularCPD(variables=[X,P1..Pk], values nd)     cpd: cvar, cpars (= variables[1:]), cvals = values.ravel()
   state names (hashable)                          name := Z (interned by the harness; Python ints keep
                                                   their value, every other name gets a value < -1000)
   sampled[var] (state NUMBERS)                    prow = list (var * nat), newest first
   get_state_no(var, x)  (KeyError)                get_state_no : option nat
   np.random.choice(states, size=m, p=p)           takes the next m entries of the oracle stream and
                                                   records the call (p, m)
   ValueError / nan weights / KeyError             Err code                                         *)
From Coq Require Import List Bool Arith ZArith QArith Qcanon Qround Lia.
From PV Require Import Base.Sx Base.Ravel Base.Semiring Base.FinSum Base.RefFactor C07.Dist.
Import ListNotations.
Local Open Scope Qc_scope.

Definition name := Z.
Notation QR := Qc_sum_csr.
Notation qfactor := (factor QR).

Record cpd := { cvar : var; cpars : list var; cvals : list Qc }.
Record bn := {
  bnodes : list var;                 (* list(model.nodes()) : column order of the frames *)
  bcpds : list cpd;                  (* model.cpds, insertion order *)
  blat : list var;                   (* model.latents *)
  bcard : list (var * nat);
  bnames : list (var * list name)
}.

Fixpoint assoc {B} (l : list (var * B)) (v : var) : option B :=
  match l with [] => None | (w, x) :: t => if Nat.eqb w v then Some x else assoc t v end.
Definition cardf (b : bn) (v : var) : nat := match assoc (bcard b) v with Some c => c | None => 1%nat end.
Definition namesf (b : bn) (v : var) : list name := match assoc (bnames b) v with Some l => l | None => [] end.
Definition get_cpd (b : bn) (v : var) : option cpd := find (fun c => Nat.eqb (cvar c) v) (bcpds b).
Definition cscope (c : cpd) : list var := cvar c :: cpars c.
Definition cfactor (c : cpd) : qfactor := Build_factor QR (cscope c) (cvals c).

Inductive res (A : Type) := Ok (a : A) | Err (code : Z).
Arguments Ok {A}. Arguments Err {A}.
(* error codes *)
Definition E_VALUE : Z := 1.     (* ValueError: weights do not sum to 1 (|1 - sum| > 1e-3) *)
Definition E_NAN : Z := 2.       (* zero normaliser: numpy produces nan weights *)
Definition E_ORACLE : Z := 3.    (* the oracle stream is shorter than the draws requested *)
Definition E_DRAW : Z := 4.      (* an oracle answer is not a state index of the column *)
Definition E_INPUT : Z := 5.     (* malformed request (unknown node, wrong partial column length ...) *)
Definition E_KEY : Z := 6.       (* KeyError: evidence state name unknown *)
Definition E_FUEL : Z := 7.      (* the rejection loop did not finish within the given number of batches *)

(* ---------------------------------------------------------------- rows *)
Definition prow := list (var * nat).
Definition a0 : asg := fun _ => 0%nat.
Definition arow (r : prow) : asg := upds a0 r.            (* sampled[v] of this row *)
Definition sc_of (r : prow) (evid : list var) : list nat := map (arow r) evid.

(* ---------------------------------------------------------------- state names <-> numbers *)
Fixpoint index_of (x : name) (l : list name) : option nat :=
  match l with
  | [] => None
  | y :: t => if Z.eqb x y then Some 0%nat else option_map S (index_of x t)
  end.
Definition get_state_no (b : bn) (v : var) (x : name) : option nat := index_of x (namesf b v).
Definition state_name (b : bn) (v : var) (s : nat) : option name := nth_error (namesf b v) s.   (* get_state_names *)
(* Gibbs kernels (after 2e973fe): State(v, factor.get_state_names(v, s)) is handed to DiscreteFactor.reduce,
   which maps every name back to its number.  None = a name that cannot be resolved (KeyError). *)
Definition reduce_numbers (b : bn) (vars : list var) (sc : list nat) : option (list nat) :=
  traverse (fun vk => match state_name b (fst vk) (snd vk) with
                      | Some x => get_state_no b (fst vk) x
                      | None => None
                      end) (combine vars sc).

(* ---------------------------------------------------------------- _reduce_marg *)
(* variable_cpd.values[slice with evid[i] -> values[i]] : the child column for that configuration *)
Definition column (b : bn) (c : cpd) (ev : list (var * nat)) : list Qc :=
  map (fun s => feval QR (cardf b) (cfactor c) (upds a0 ((cvar c, s) :: ev))) (seq 0 (cardf b (cvar c))).
Definition normalise (col : list Qc) : option (list Qc) :=
  if Qc_eq_dec (qsum col) 0 then None else Some (map (fun x => x / qsum col) col).
Definition reduce_marg (b : bn) (c : cpd) (evid : list var) (sc : list nat) : option (list Qc) :=
  normalise (column b c (combine evid sc)).     (* after 7c40cb0: values = sc, the state numbers given *)

(* _adjusted_weights *)
Definition Qcabs (q : Qc) : Qc := if Qclt_le_dec q 0 then - q else q.
Fixpoint argmax_from (best : Qc) (besti i : nat) (l : list Qc) : nat :=
  match l with
  | [] => besti
  | x :: t => if Qclt_le_dec best x then argmax_from x i (S i) t else argmax_from best besti (S i) t
  end.
Definition argmax (l : list Qc) : nat :=
  match l with [] => 0%nat | x :: t => argmax_from x 0%nat 1%nat t end.
Fixpoint add_at (k : nat) (e : Qc) (l : list Qc) : list Qc :=
  match l, k with
  | [], _ => []
  | x :: t, O => (x + e) :: t
  | x :: t, S k' => x :: add_at k' e t
  end.
Definition tol : Qc := Q2Qc (1 # 1000).
Definition adjusted (w : list Qc) : res (list Qc) :=
  let e := 1 - qsum w in
  if Qclt_le_dec tol (Qcabs e) then Err E_VALUE
  else if Qc_eq_dec e 0 then Ok w else Ok (add_at (argmax w) e w).

(* the (un-adjusted) weight vector of a node for one row; evid = the evidence list the caller passes
   (forward: variables[1:]; likelihood weighting: get_evidence() = reversed) *)
Definition node_dist (b : bn) (c : cpd) (evid : list var) (r : prow) : res (list Qc) :=
  match cpars c with
  | [] => Ok (cvals c)
  | _ => match reduce_marg b c evid (sc_of r evid) with Some w => Ok w | None => Err E_NAN end
  end.
Definition node_w (b : bn) (c : cpd) (evid : list var) (r : prow) : res (list Qc) :=
  match node_dist b c evid r with Ok w => adjusted w | Err e => Err e end.
Definition fwd_evid (c : cpd) : list var := cpars c.
Definition lw_evid (c : cpd) : list var := rev (cpars c).

(* ---------------------------------------------------------------- the draw oracle *)
Definition call := (list Qc * nat)%type.            (* (p, size) of one np.random.choice call *)
Record ost := { ostream : list nat; ocalls : list call }.   (* remaining draws; calls so far (newest first) *)

Definition take_draws (card m : nat) (p : list Qc) (o : ost) : res (list nat * ost) :=
  if (length (ostream o) <? m)%nat then Err E_ORACLE
  else let ds := firstn m (ostream o) in
       if forallb (fun d => (d <? card)%nat) ds
       then Ok (ds, {| ostream := skipn m (ostream o); ocalls := (p, m) :: ocalls o |})
       else Err E_DRAW.

(* lexicographic order on weight vectors (np.unique(axis=0) sorts rows this way) *)
Fixpoint lex_cmp (x y : list Qc) : comparison :=
  match x, y with
  | [], [] => Eq
  | [], _ => Lt
  | _, [] => Gt
  | a :: x', b :: y' => match a ?= b with Eq => lex_cmp x' y' | c => c end
  end.
Definition vec_eqb (x y : list Qc) : bool := match lex_cmp x y with Eq => true | _ => false end.
Fixpoint insert_uniq (x : list Qc) (l : list (list Qc)) : list (list Qc) :=
  match l with
  | [] => [x]
  | y :: t => match lex_cmp x y with
              | Lt => x :: l
              | Eq => l
              | Gt => y :: insert_uniq x t
              end
  end.
Definition sort_uniq (ws : list (list Qc)) : list (list Qc) := fold_right insert_uniq [] ws.

(* samples[weight_indices == g] = draws   (rows of the group, in row order) *)
Fixpoint scatter (g : list Qc) (ws : list (list Qc)) (draws : list nat) (col : list nat) : list nat :=
  match ws, col with
  | w :: ws', x :: col' =>
      if vec_eqb w g
      then match draws with d :: ds => d :: scatter g ws' ds col' | [] => x :: scatter g ws' [] col' end
      else x :: scatter g ws' draws col'
  | _, _ => col
  end.
Definition count_vec (g : list Qc) (ws : list (list Qc)) : nat := length (filter (fun w => vec_eqb w g) ws).

(* sample_discrete_maps: one call per distinct weight vector, ascending *)
Fixpoint sample_groups (card : nat) (groups : list (list Qc)) (ws : list (list Qc))
         (col : list nat) (o : ost) : res (list nat * ost) :=
  match groups with
  | [] => Ok (col, o)
  | g :: rest =>
      match adjusted g with
      | Err e => Err e
      | Ok p =>
          match take_draws card (count_vec g ws) p o with
          | Err e => Err e
          | Ok (ds, o') => sample_groups card rest ws (scatter g ws ds col) o'
          end
      end
  end.

Fixpoint all_ok {A} (l : list (res A)) : res (list A) :=
  match l with
  | [] => Ok []
  | Ok a :: t => match all_ok t with Ok r => Ok (a :: r) | Err e => Err e end
  | Err e :: _ => Err e
  end.

(* one non-partial, non-evidence node: the column of state numbers for all rows *)
Definition sample_node (b : bn) (c : cpd) (evid : list var) (rows : list prow) (o : ost)
  : res (list nat * ost) :=
  let card := cardf b (cvar c) in
  match cpars c with
  | [] => match adjusted (cvals c) with
          | Err e => Err e
          | Ok p => take_draws card (length rows) p o
          end
  | _ => match all_ok (map (node_dist b c evid) rows) with
         | Err e => Err e
         | Ok ws => sample_groups card (sort_uniq ws) ws (map (fun _ => 0%nat) rows) o
         end
  end.

Definition set_column (v : var) (col : list nat) (rows : list prow) : list prow :=
  map (fun rc => (v, snd rc) :: fst rc) (combine rows col).

(* ---------------------------------------------------------------- forward_sample *)
Fixpoint fwd_loop (b : bn) (order : list var) (size : nat) (partial : list (var * list nat))
         (rows : list prow) (o : ost) : res (list prow * ost) :=
  match order with
  | [] => Ok (rows, o)
  | v :: rest =>
      match assoc partial v with
      | Some col =>
          if Nat.eqb (length col) size then fwd_loop b rest size partial (set_column v col rows) o
          else Err E_INPUT
      | None =>
          match get_cpd b v with
          | None => Err E_INPUT
          | Some c =>
              match sample_node b c (fwd_evid c) rows o with
              | Err e => Err e
              | Ok (col, o') => fwd_loop b rest size partial (set_column v col rows) o'
              end
          end
      end
  end.
Definition forward_rows (b : bn) (order : list var) (size : nat) (partial : list (var * list nat)) (o : ost)
  : res (list prow * ost) :=
  fwd_loop b order size partial (repeat [] size) o.

(* _return_samples + latent dropping: named cells in column order; None = NaN (number without a name) *)
Definition memv' (x : var) (l : list var) : bool := existsb (Nat.eqb x) l.
Definition out_columns (b : bn) (include_latents : bool) : list var :=
  if include_latents then bnodes b else filter (fun v => negb (memv' v (blat b))) (bnodes b).
Definition cell_name (b : bn) (r : prow) (v : var) : option name := nth_error (namesf b v) (arow r v).
Definition named_row (b : bn) (cols : list var) (r : prow) : list (option name) := map (cell_name b r) cols.
Definition frame := list (list (option name)).
Definition named_frame (b : bn) (include_latents : bool) (rows : list prow) : frame :=
  map (named_row b (out_columns b include_latents)) rows.

(* ---------------------------------------------------------------- rejection_sample *)
Definition name_eqb (x : option name) (s : name) : bool := match x with Some y => Z.eqb y s | None => false end.
(* for var, state in evidence: _sampled = _sampled[_sampled[var] == state]   (state NAMES) *)
Definition agrees (b : bn) (ev : list (var * name)) (r : prow) : bool :=
  forallb (fun vs => name_eqb (cell_name b r (fst vs)) (snd vs)) ev.
Definition Qcfloor_nat (q : Qc) : nat := Z.to_nat (Qfloor (this q)).
Definition Qc_of_nat (n : nat) : Qc := Q2Qc (inject_Z (Z.of_nat n)).
Definition Qcmax2 (a b : Qc) : Qc := if Qclt_le_dec a b then b else a.
(* _size = int(((size - i) / prob) * 1.5)   or partial_samples.shape[0] *)
Definition batch_size (size i : nat) (prob : Qc) (psize : option nat) : nat :=
  match psize with
  | Some n => n
  | None => Qcfloor_nat (Qc_of_nat (size - i) / prob * Q2Qc (3 # 2))
  end.
Fixpoint rej_loop (fuel : nat) (b : bn) (order : list var) (ev : list (var * name)) (size : nat)
         (partial : list (var * list nat)) (psize : option nat)
         (acc : list prow) (i : nat) (prob : Qc) (sizes : list nat) (o : ost)
  : res (list prow * list nat * ost) :=
  if (size <=? i)%nat then Ok (acc, rev sizes, o) else
  match fuel with
  | O => Err E_FUEL
  | S fuel' =>
      let n := batch_size size i prob psize in
      match forward_rows b order n partial o with
      | Err e => Err e
      | Ok (rows, o') =>
          let kept := filter (agrees b ev) rows in
          let prob' := Qcmax2 (Qc_of_nat (length kept) / Qc_of_nat n) (Q2Qc (1 # 100)) in
          rej_loop fuel' b order ev size partial psize (firstn size (acc ++ kept)) (i + length kept)
                   prob' (n :: sizes) o'
      end
  end.
Definition rejection_rows (fuel : nat) (b : bn) (order : list var) (ev : list (var * name)) (size : nat)
           (partial : list (var * list nat)) (psize : option nat) (o : ost)
  : res (list prow * list nat * ost) :=
  match ev with
  | [] => match forward_rows b order size [] o with      (* forward_sample(size, include_latents): partial dropped *)
          | Ok (rows, o') => Ok (rows, [size], o')
          | Err e => Err e
          end
  | _ => rej_loop fuel b order ev size partial psize [] 0%nat 1 [] o
  end.

(* ---------------------------------------------------------------- likelihood_weighted_sample *)
Definition wrow := (prow * Qc)%type.
(* evidence node: sampled[node] = e; _weight *= index_to_weight[...][e]  (no draw) *)
Definition lw_evidence_node (b : bn) (c : cpd) (e : nat) (rows : list wrow) : res (list wrow) :=
  all_ok (map (fun rw => match node_dist b c (lw_evid c) (fst rw) with
                         | Ok w => Ok ((cvar c, e) :: fst rw, snd rw * nth e w 0)
                         | Err x => Err x
                         end) rows).
Fixpoint lw_loop (b : bn) (order : list var) (ev : list (var * nat)) (rows : list wrow) (o : ost)
  : res (list wrow * ost) :=
  match order with
  | [] => Ok (rows, o)
  | v :: rest =>
      match get_cpd b v with
      | None => Err E_INPUT
      | Some c =>
          match assoc ev v with
          | Some e =>
              match lw_evidence_node b c e rows with
              | Err x => Err x
              | Ok rows' => lw_loop b rest ev rows' o
              end
          | None =>
              match sample_node b c (lw_evid c) (map fst rows) o with
              | Err x => Err x
              | Ok (col, o') =>
                  lw_loop b rest ev
                    (map (fun rc => ((v, snd rc) :: fst (fst rc), snd (fst rc))) (combine rows col)) o'
              end
          end
      end
  end.
(* evidence = [(var, get_state_no(var, state))] ; KeyError for an unknown name *)
Fixpoint ev_numbers (b : bn) (ev : list (var * name)) : res (list (var * nat)) :=
  match ev with
  | [] => Ok []
  | (v, s) :: t => match get_state_no b v s, ev_numbers b t with
                   | Some k, Ok r => Ok ((v, k) :: r)
                   | None, _ => Err E_KEY
                   | _, Err e => Err e
                   end
  end.
(* dict(evidence): the LAST entry of a repeated variable wins *)
Definition lw_rows (b : bn) (order : list var) (ev : list (var * name)) (size : nat) (o : ost)
  : res (list wrow * ost) :=
  match ev_numbers b ev with
  | Err e => Err e
  | Ok evn => lw_loop b order (rev evn) (repeat ([], 1) size) o
  end.

(* ---------------------------------------------------------------- Gibbs kernels *)
Fixpoint all_tuples (cards : list nat) : list (list nat) :=
  match cards with
  | [] => [[]]
  | c :: cs => flat_map (fun i => map (cons i) (all_tuples cs)) (seq 0 c)
  end.
(* factors = the factors whose scope contains v, in model order; vars = self.variables *)
Definition kernel_row (b : bn) (factors : list qfactor) (vars : list var) (v : var) (tup : list nat)
  : option (list Qc) :=
  let others := filter (fun w => negb (Nat.eqb w v)) vars in
  let f := match factors with [f1] => f1 | _ => fprod_list QR (cardf b) factors end in
  let st := filter (fun ws => memv (fst ws) (fvars f)) (combine others tup) in
  match reduce_numbers b (map fst st) (map snd st) with
  | None => None
  | Some vals => normalise (fvals (fred QR (cardf b) (combine (map fst st) vals) f))
  end.
Definition factors_of (fs : list qfactor) (v : var) : list qfactor := filter (fun f => memv v (fvars f)) fs.
Definition kernel_table (b : bn) (fs : list qfactor) (vars : list var) (v : var)
  : list (list nat * option (list Qc)) :=
  let others := filter (fun w => negb (Nat.eqb w v)) vars in
  map (fun tup => (tup, kernel_row b (factors_of fs v) vars v tup)) (all_tuples (map (cardf b) others)).
Definition bn_factors (b : bn) : list qfactor := map cfactor (bcpds b).

(* GibbsSampling.sample: state numbers; one draw per variable per sweep *)
Fixpoint set_nth (k : nat) (x : nat) (l : list nat) : list nat :=
  match l, k with
  | [], _ => []
  | _ :: t, O => x :: t
  | y :: t, S k' => y :: set_nth k' x t
  end.
Fixpoint remove_nth {A} (k : nat) (l : list A) : list A :=
  match l, k with
  | [], _ => []
  | _ :: t, O => t
  | y :: t, S k' => y :: remove_nth k' t
  end.
Fixpoint gibbs_sweep (b : bn) (fs : list qfactor) (vars : list var) (js : list nat) (st : list nat) (o : ost)
  : res (list nat * ost) :=
  match js with
  | [] => Ok (st, o)
  | j :: rest =>
      let v := nth j vars 0%nat in
      match kernel_row b (factors_of fs v) vars v (remove_nth j st) with
      | None => Err E_NAN
      | Some w =>
          match adjusted w with
          | Err e => Err e
          | Ok p =>
              match take_draws (cardf b v) 1 p o with
              | Err e => Err e
              | Ok (ds, o') => gibbs_sweep b fs vars rest (set_nth j (hd 0%nat ds) st) o'
              end
          end
      end
  end.
Fixpoint gibbs_chain (b : bn) (fs : list qfactor) (vars : list var) (n : nat) (st : list nat) (o : ost)
  : res (list (list nat) * ost) :=
  match n with
  | O => Ok ([], o)
  | S n' =>
      match gibbs_sweep b fs vars (seq 0 (length vars)) st o with
      | Err e => Err e
      | Ok (st', o') =>
          match gibbs_chain b fs vars n' st' o' with
          | Err e => Err e
          | Ok (r, o'') => Ok (st' :: r, o'')
          end
      end
  end.
(* sampled[0] = start; then size-1 sweeps *)
Definition gibbs_sample (b : bn) (fs : list qfactor) (vars : list var) (size : nat) (start : list nat) (o : ost)
  : res (list (list nat) * ost) :=
  match gibbs_chain b fs vars (size - 1) start o with
  | Err e => Err e
  | Ok (r, o') => Ok (start :: r, o')
  end.

(* ---------------------------------------------------------------- simulate(): model surgery *)
(* simulate (after bd5ba97): model.do(node) cuts the parents, then the intervened variable gets a parent-free
   point-mass CPD on its do-value: [1.0 if s == state else 0.0 for s in state_names[var]] *)
Definition do_cpd (b : bn) (c : cpd) (state : name) : cpd :=
  {| cvar := cvar c; cpars := [];
     cvals := map (fun s => if Z.eqb s state then 1 else 0) (namesf b (cvar c)) |}.
(* virtual evidence on x with values q: new binary child nv of x, column k = (q_k, 1 - q_k) *)
Definition virt_cpd (nv x : var) (q : list Qc) : cpd :=
  {| cvar := nv; cpars := [x]; cvals := q ++ map (fun y => 1 - y) q |}.
Fixpoint chunks {A} (n k : nat) (l : list A) : list (list A) :=      (* k chunks of length n *)
  match k with O => [] | S k' => firstn n l :: chunks n k' (skipn n l) end.
(* virtual (soft) intervention: model.do(node) only -> cpd.marginalize(parents): sum over the parent
   configurations, then normalize(); the soft-intervention CPD then acts as virtual evidence *)
Definition marg_cpd (b : bn) (c : cpd) : cpd :=
  let pc := prod (map (cardf b) (cpars c)) in
  let m := map qsum (chunks pc (cardf b (cvar c)) (cvals c)) in
  {| cvar := cvar c; cpars := []; cvals := match normalise m with Some w => w | None => m end |}.
(* dos: hard interventions (point mass); margs: variables of virtual_intervention (marginalised CPD);
   virt: virtual_evidence ++ virtual_intervention, each adds a binary child *)
Definition simulate_bn (b : bn) (nodes' : list var) (dos : list (var * name)) (margs : list var)
           (virt : list (var * var * list Qc)) : bn :=
  {| bnodes := nodes';
     bcpds := map (fun c => match assoc dos (cvar c) with
                            | Some st => do_cpd b c st
                            | None => if memv' (cvar c) margs then marg_cpd b c else c
                            end) (bcpds b)
              ++ map (fun t => virt_cpd (fst (fst t)) (snd (fst t)) (snd t)) virt;
     blat := blat b;
     bcard := bcard b ++ map (fun t => (fst (fst t), 2%nat)) virt;
     bnames := bnames b ++ map (fun t => (fst (fst t), [0%Z; 1%Z])) virt |}.

(* ---------------------------------------------------------------- law semantics (Dist) of ONE row *)
(* The same weight function [node_w] as the oracle model, with each oracle answer replaced by a
   [draw] from the weight vector (the RNG assumption). *)
Fixpoint fwd_dist (b : bn) (order : list var) (r : prow) : dist prow :=
  match order with
  | [] => ret r
  | v :: rest =>
      match get_cpd b v with
      | None => fail
      | Some c => match node_w b c (fwd_evid c) r with
                  | Err _ => fail
                  | Ok p => bind (draw p) (fun s => fwd_dist b rest ((v, s) :: r))
                  end
      end
  end.
Definition forward_law (b : bn) (order : list var) : dist prow := fwd_dist b order [].

Fixpoint lw_dist (b : bn) (order : list var) (ev : list (var * nat)) (rw : wrow) : dist wrow :=
  match order with
  | [] => ret rw
  | v :: rest =>
      match get_cpd b v with
      | None => fail
      | Some c =>
          match assoc ev v with
          | Some e => match node_dist b c (lw_evid c) (fst rw) with
                      | Err _ => fail
                      | Ok w => lw_dist b rest ev ((v, e) :: fst rw, snd rw * nth e w 0)
                      end
          | None => match node_w b c (lw_evid c) (fst rw) with
                    | Err _ => fail
                    | Ok p => bind (draw p) (fun s => lw_dist b rest ev ((v, s) :: fst rw, snd rw))
                    end
          end
      end
  end.
Definition lw_law (b : bn) (order : list var) (ev : list (var * nat)) : dist wrow := lw_dist b order ev ([], 1).
