(* C07 proofs, part 1: the weight vector of a node is its CPD column; forward and likelihood-weighting laws *)
From Coq Require Import List Bool Arith ZArith QArith Qcanon Lia.
From PV Require Import Base.Sx Base.Ravel Base.Semiring Base.FinSum Base.RefFactor C07.Dist C07.Model.
Import ListNotations.
Local Open Scope Qc_scope.

(* ---------------------------------------------------------------- hypotheses *)
Definition pars_in_range (b : bn) (c : cpd) (a : asg) : Prop :=
  forall p, In p (cpars c) -> (a p < cardf b p)%nat.
(* the column of the child for assignment a *)
Definition col_of (b : bn) (c : cpd) (a : asg) : list Qc :=
  map (fun s => feval QR (cardf b) (cfactor c) (upd a (cvar c) s)) (seq 0 (cardf b (cvar c))).

Record wf_bn (b : bn) : Prop := {
  wf_scope : forall c, In c (bcpds b) -> NoDup (cscope c);
  wf_len : forall c, In c (bcpds b) -> length (cvals c) = prod (map (cardf b) (cscope c));
  (* every column of every CPD sums to one *)
  wf_colsum : forall c a, In c (bcpds b) -> pars_in_range b c a -> qsum (col_of b c a) = 1
}.

Lemma get_cpd_In b v c : get_cpd b v = Some c -> In c (bcpds b) /\ cvar c = v.
Proof.
  unfold get_cpd. intros H. apply find_some in H. destruct H as [Hin He]. apply Nat.eqb_eq in He. auto.
Qed.

Lemma upds_combine_map (a : asg) (f : var -> nat) evid p :
  In p evid -> upds a (combine evid (map f evid)) p = f p.
Proof.
  induction evid as [|e evid IH]; intros Hin; [destruct Hin|]. simpl. unfold upd.
  destruct (Nat.eqb p e) eqn:E; [apply Nat.eqb_eq in E; subst; reflexivity|].
  apply IH. destruct Hin as [Hin|Hin]; [subst; rewrite Nat.eqb_refl in E; discriminate|exact Hin].
Qed.

Lemma one_neq_zero : (1 : Qc) <> 0.
Proof. intros H. discriminate H. Qed.

Lemma normalise_one col : qsum col = 1 -> normalise col = Some col.
Proof.
  intros H. unfold normalise. rewrite H. destruct (Qc_eq_dec 1 0) as [E|_]; [exfalso; exact (one_neq_zero E)|].
  f_equal. rewrite <- (map_id col) at 2. apply map_ext. intros x. field. exact one_neq_zero.
Qed.

Lemma adjusted_one w : qsum w = 1 -> adjusted w = Ok w.
Proof.
  intros H. unfold adjusted. rewrite H.
  destruct (Qclt_le_dec tol (Qcabs (1 - 1))) as [L|_].
  - exfalso. vm_compute in L. discriminate L.
  - destruct (Qc_eq_dec (1 - 1) 0) as [_|N]; [reflexivity|]. exfalso. apply N. ring.
Qed.

(* the row r holds sigma on the variables already sampled, within range *)
Definition holds (b : bn) (done : list var) (r : prow) (sg : asg) : Prop :=
  forall u, In u done -> arow r u = sg u /\ (sg u < cardf b u)%nat.

Lemma holds_cons b done r sg v : holds b done r sg -> (sg v < cardf b v)%nat ->
  holds b (v :: done) ((v, sg v) :: r) sg.
Proof.
  intros H Hv u [->|Hu].
  - unfold arow. simpl. rewrite upd_same. split; [reflexivity|exact Hv].
  - unfold arow. simpl. unfold upd. destruct (Nat.eqb u v) eqn:E.
    + apply Nat.eqb_eq in E. subst. split; [reflexivity|exact Hv].
    + apply H. exact Hu.
Qed.

Lemma col_of_length b c sg : length (col_of b c sg) = cardf b (cvar c).
Proof. unfold col_of. rewrite map_length, seq_length. reflexivity. Qed.
Lemma col_of_nth b c sg s : (s < cardf b (cvar c))%nat ->
  nth s (col_of b c sg) 0 = feval QR (cardf b) (cfactor c) (upd sg (cvar c) s).
Proof.
  intros Hs. unfold col_of.
  rewrite (nth_indep _ 0 (feval QR (cardf b) (cfactor c) (upd sg (cvar c) 0%nat)))
    by (rewrite map_length, seq_length; exact Hs).
  rewrite (map_nth (fun s => feval QR (cardf b) (cfactor c) (upd sg (cvar c) s))).
  rewrite seq_nth by exact Hs. reflexivity.
Qed.

(* KEY: for a row that holds sigma on the parents, the un-adjusted and the adjusted weight vector of
   the node are exactly the CPD column of sigma's parent configuration, whichever of the two
   evidence orders the caller passes *)
Lemma node_dist_col b c evid r sg done :
  wf_bn b -> In c (bcpds b) ->
  (forall p, In p evid <-> In p (cpars c)) ->
  incl (cpars c) done -> holds b done r sg ->
  node_dist b c evid r = Ok (col_of b c sg).
Proof.
  intros W Hc Hev Hinc Hh. unfold node_dist.
  assert (Hnd : NoDup (cscope c)) by (apply W; exact Hc).
  assert (Hnotin : ~ In (cvar c) (cpars c)) by (unfold cscope in Hnd; inversion Hnd; assumption).
  assert (Hpr : pars_in_range b c sg) by (intros p Hp; apply Hh; apply Hinc; exact Hp).
  destruct (cpars c) as [|p0 ps] eqn:Ep.
  - (* root: weights = cpd.values *)
    f_equal. apply (nth_ext _ _ 0 0).
    + rewrite col_of_length. rewrite (wf_len b W c Hc). unfold cscope. rewrite Ep. simpl. lia.
    + intros n Hn. rewrite (wf_len b W c Hc) in Hn. unfold cscope in Hn. rewrite Ep in Hn. simpl in Hn.
      assert (Hn' : (n < cardf b (cvar c))%nat) by lia.
      rewrite col_of_nth by exact Hn'.
      unfold feval, t_get, fcard, cfactor, cscope. simpl. rewrite Ep. simpl.
      rewrite upd_same. f_equal. lia.
  - rewrite <- Ep in *. unfold reduce_marg.
    assert (Hcol : column b c (combine evid (sc_of r evid)) = col_of b c sg).
    { unfold column, col_of. apply map_ext_in. intros s _.
      apply feval_depends_only. intros u Hu. unfold cfactor, cscope in Hu. simpl in Hu.
      cbn [upds]. unfold upd. destruct (Nat.eqb u (cvar c)) eqn:E; [reflexivity|].
      destruct Hu as [Hu|Hu]; [subst; rewrite Nat.eqb_refl in E; discriminate|].
      unfold sc_of. rewrite upds_combine_map by (apply Hev; exact Hu).
      apply Hh. apply Hinc. exact Hu. }
    rewrite Hcol. rewrite normalise_one by (apply W; assumption).
    destruct (cpars c); [discriminate Ep|reflexivity].
Qed.

Lemma node_w_col b c evid r sg done :
  wf_bn b -> In c (bcpds b) ->
  (forall p, In p evid <-> In p (cpars c)) ->
  incl (cpars c) done -> holds b done r sg ->
  node_w b c evid r = Ok (col_of b c sg).
Proof.
  intros W Hc Hev Hinc Hh. unfold node_w. rewrite (node_dist_col b c evid r sg done) by assumption.
  apply adjusted_one. apply W; [exact Hc|]. intros p Hp. apply Hh. apply Hinc. exact Hp.
Qed.


(* ---------------------------------------------------------------- forward law *)
(* order is a topological order: each node has a CPD, is new, and its parents were sampled before *)
Inductive topo (b : bn) : list var -> list var -> Prop :=
| topo_nil done : topo b done []
| topo_cons done v c rest : get_cpd b v = Some c -> ~ In v done -> incl (cpars c) done ->
    topo b (v :: done) rest -> topo b done (v :: rest).

Definition prow_eq_dec : forall x y : prow, {x = y} + {x <> y}.
Proof.
  apply list_eq_dec. intros [a1 a2] [b1 b2].
  destruct (Nat.eq_dec a1 b1), (Nat.eq_dec a2 b2); [left; congruence|right; congruence..].
Defined.
Definition is_row (t r : prow) : Qc := if prow_eq_dec r t then 1 else 0.
Definition target (rest : list var) (sg : asg) (r : prow) : prow := rev (map (fun v => (v, sg v)) rest) ++ r.
Definition cpd_entry (b : bn) (v : var) (sg : asg) : Qc :=
  match get_cpd b v with Some c => feval QR (cardf b) (cfactor c) sg | None => 0 end.

Lemma target_cons v rest sg r : target (v :: rest) sg r = target rest sg ((v, sg v) :: r).
Proof. unfold target. simpl. rewrite <- app_assoc. reflexivity. Qed.
Lemma target_length rest sg r : length (target rest sg r) = (length rest + length r)%nat.
Proof. unfold target. rewrite app_length, rev_length, map_length. reflexivity. Qed.

Lemma app_inv_len {A} (a1 a2 b1 b2 : list A) : a1 ++ b1 = a2 ++ b2 -> length a1 = length a2 -> a1 = a2 /\ b1 = b2.
Proof.
  revert a2. induction a1 as [|x a1 IH]; intros [|y a2] E L; simpl in *; try discriminate; [auto|].
  inversion E; subst. destruct (IH a2 H1) as [-> ->]; [lia|auto].
Qed.

Lemma fwd_shape b : forall rest r,
  always (fun x => exists pre, x = pre ++ r /\ length pre = length rest) (fwd_dist b rest r).
Proof.
  induction rest as [|v rest IH]; intros r; simpl.
  - apply always_ret. exists []. split; reflexivity.
  - destruct (get_cpd b v) as [c|]; [|apply always_fail].
    destruct (node_w b c (fwd_evid c) r) as [p|e]; [|apply always_fail].
    apply always_bind. intros s q _. intros x px Hx. destruct (IH _ x px Hx) as [pre [E L]].
    exists (pre ++ [(v, s)]). split; [rewrite <- app_assoc; exact E|rewrite app_length; simpl; lia].
Qed.

Lemma fwd_other_zero b rest r v s s' sg : s <> s' ->
  ex (is_row (target rest sg ((v, s') :: r))) (fwd_dist b rest ((v, s) :: r)) = 0.
Proof.
  intros Hne. eapply ex_always_zero; [apply fwd_shape|]. intros x [pre [E L]]. unfold is_row.
  destruct (prow_eq_dec x (target rest sg ((v, s') :: r))) as [E2|_]; [|reflexivity]. exfalso.
  subst x. unfold target in E2. apply app_inv_len in E2.
  - destruct E2 as [_ E2]. inversion E2. congruence.
  - rewrite rev_length, map_length. exact L.
Qed.

Lemma evid_fwd c : forall p, In p (fwd_evid c) <-> In p (cpars c).
Proof. intros p. reflexivity. Qed.
Lemma evid_lw c : forall p, In p (lw_evid c) <-> In p (cpars c).
Proof. intros p. unfold lw_evid. symmetry. apply in_rev. Qed.

Lemma fwd_law_gen b : wf_bn b -> forall rest done r sg,
  topo b done rest -> holds b done r sg -> (forall v, In v rest -> (sg v < cardf b v)%nat) ->
  ex (is_row (target rest sg r)) (fwd_dist b rest r) = qprod (map (fun v => cpd_entry b v sg) rest).
Proof.
  intros W. induction rest as [|v rest IH]; intros done r sg Ht Hh Hr.
  - simpl. rewrite ex_ret. unfold is_row, target. simpl.
    destruct (prow_eq_dec r r); [reflexivity|congruence].
  - inversion Ht as [|d v' c rest' Hget Hnew Hinc Ht']; subst.
    destruct (get_cpd_In _ _ _ Hget) as [Hc Hv].
    simpl fwd_dist. rewrite Hget.
    rewrite (node_w_col b c (fwd_evid c) r sg done W Hc (evid_fwd c) Hinc Hh).
    rewrite ex_bind, ex_draw, col_of_length, Hv.
    assert (Hsv : (sg v < cardf b v)%nat) by (apply Hr; left; reflexivity).
    rewrite (qsum_seq_single _ (sg v)); [|lia|].
    + rewrite target_cons.
      rewrite (IH (v :: done) ((v, sg v) :: r) sg Ht').
      * simpl. f_equal. rewrite <- Hv at 1. rewrite col_of_nth by (rewrite Hv; exact Hsv).
        unfold cpd_entry. rewrite Hget. rewrite Hv. apply (feval_ext QR (cardf b) (cfactor c)). apply upd_id.
      * apply holds_cons; assumption.
      * intros u Hu. apply Hr. right. exact Hu.
    + intros s Hs. rewrite target_cons. rewrite fwd_other_zero by exact Hs. ring.
Qed.

(* support: every outcome is the row of an in-range assignment *)
Lemma holds_upd b done r sg v s : ~ In v done -> holds b done r sg -> (s < cardf b v)%nat ->
  holds b (v :: done) ((v, s) :: r) (upd sg v s).
Proof.
  intros Hn H Hs u [->|Hu].
  - unfold arow. simpl. rewrite !upd_same. split; [reflexivity|exact Hs].
  - assert (u <> v) by (intros ->; contradiction).
    unfold arow. simpl. rewrite !upd_other by assumption. apply H. exact Hu.
Qed.

Lemma fwd_support_gen b : wf_bn b -> forall rest done r sg,
  topo b done rest -> holds b done r sg ->
  always (fun x => exists sg', (forall u, In u done -> sg' u = sg u) /\ x = target rest sg' r /\
                               forall v, In v rest -> (sg' v < cardf b v)%nat)
         (fwd_dist b rest r).
Proof.
  intros W. induction rest as [|v rest IH]; intros done r sg Ht Hh.
  - simpl. apply always_ret. exists sg. split; [reflexivity|]. split; [reflexivity|intros v []].
  - inversion Ht as [|d v' c rest' Hget Hnew Hinc Ht']; subst.
    destruct (get_cpd_In _ _ _ Hget) as [Hc Hv].
    simpl fwd_dist. rewrite Hget.
    rewrite (node_w_col b c (fwd_evid c) r sg done W Hc (evid_fwd c) Hinc Hh).
    apply always_bind. intros s q Hs. apply always_draw in Hs. rewrite col_of_length, Hv in Hs.
    intros x px Hx.
    destruct (IH (v :: done) ((v, s) :: r) (upd sg v s) Ht' (holds_upd b done r sg v s Hnew Hh Hs) x px Hx)
      as [sg' [Hag [E Hrange]]].
    exists sg'. split; [|split].
    + intros u Hu. rewrite Hag by (right; exact Hu). apply upd_other. intros ->. contradiction.
    + rewrite target_cons. rewrite Hag by (left; reflexivity). rewrite upd_same. exact E.
    + intros u [->|Hu]; [rewrite Hag by (left; reflexivity); rewrite upd_same; exact Hs|apply Hrange; exact Hu].
Qed.
