(* C07 proofs, part 3: rejection loop post-conditions, accepted-row law, determinism, the D16 witness *)
From Coq Require Import List Bool Arith ZArith QArith Qcanon Lia.
From PV Require Import Base.Sx Base.Ravel Base.Semiring Base.FinSum Base.RefFactor C07.Dist C07.Model C07.ProofsForward.
Import ListNotations.
Local Open Scope Qc_scope.

Lemma Forall_firstn {A} (P : A -> Prop) n (l : list A) : Forall P l -> Forall P (firstn n l).
Proof. revert l. induction n as [|n IH]; intros [|x l] H; simpl; try constructor; inversion H; auto. Qed.

(* rejection loop: when it returns, exactly `size` rows, all agreeing with the evidence *)
Lemma rej_loop_post b order ev size partial psize : forall fuel acc i prob sizes o rows sz o',
  rej_loop fuel b order ev size partial psize acc i prob sizes o = Ok (rows, sz, o') ->
  length acc = Nat.min i size -> Forall (fun r => agrees b ev r = true) acc ->
  length rows = size /\ Forall (fun r => agrees b ev r = true) rows.
Proof.
  induction fuel as [|fuel IH]; intros acc i prob sizes o rows sz o' H Hl Hf.
  - simpl in H. destruct (size <=? i)%nat eqn:E; [|discriminate]. inversion H; subst.
    apply Nat.leb_le in E. split; [lia|exact Hf].
  - simpl in H. destruct (size <=? i)%nat eqn:E.
    + inversion H; subst. apply Nat.leb_le in E. split; [lia|exact Hf].
    + apply Nat.leb_gt in E.
      destruct (forward_rows b order (batch_size size i prob psize) partial o) as [[rs o1]|e]; [|discriminate].
      eapply IH; [exact H| |].
      * rewrite firstn_length, app_length. lia.
      * apply Forall_firstn. apply Forall_app. split; [exact Hf|].
        apply Forall_forall. intros x Hx. apply filter_In in Hx. exact (proj2 Hx).
Qed.

(* law of an accepted row: the forward law restricted to the rows that pass the evidence filter *)
Lemma accepted_law b order (acc : prow -> bool) (t : prow) :
  ex (is_row t) (restrict acc (forward_law b order)) = ind (acc t) * ex (is_row t) (forward_law b order).
Proof.
  rewrite ex_restrict. unfold ex. rewrite <- qsum_map_mul. apply qsum_map_ext. intros [a p] _. simpl.
  unfold is_row. destruct (prow_eq_dec a t) as [->|_]; ring.
Qed.

(* ---------------------------------------------------------------- the D16 witness *)
(* A -> B; A has the integer state names [1; 0]; P(A) = [9/10; 1/10]; B copies A (B: names y, n) *)
Definition q (n d : Z) : Qc := Q2Qc (n # Z.to_pos d).
Definition d16_bn : bn :=
  {| bnodes := [0; 1]%nat;
     bcpds := [ {| cvar := 0%nat; cpars := []; cvals := [q 9 10; q 1 10] |};
                {| cvar := 1%nat; cpars := [0%nat]; cvals := [1; 0; 0; 1] |} ];
     blat := [];
     bcard := [(0, 2); (1, 2)]%nat;
     bnames := [(0%nat, [1; 0]%Z); (1%nat, [-1001; -1002]%Z)] |}.
Definition d16_sg : asg := fun v => match v with 0%nat => 0%nat | _ => 1%nat end.   (* A = state 0 ("1"), B = state 1 ("n") *)

Lemma d16_wf : wf_bn d16_bn.
Proof.
  split.
  - intros c [<-|[<-|[]]]; unfold cscope; simpl; repeat constructor; simpl; intuition discriminate.
  - intros c [<-|[<-|[]]]; reflexivity.
  - intros c a [<-|[<-|[]]] Hr.
    + apply Qc_is_canon. vm_compute. reflexivity.
    + assert (Ha : (a 0 < 2)%nat) by (apply (Hr 0%nat); left; reflexivity).
      unfold col_of, feval, t_get, fcard, cfactor, cscope. simpl.
      unfold upd. simpl. destruct (a 0%nat) as [|[|n]]; [apply Qc_is_canon; vm_compute; reflexivity|apply Qc_is_canon; vm_compute; reflexivity|lia].
Qed.
Lemma d16_topo : topo d16_bn [] [0; 1]%nat.
Proof.
  eapply topo_cons; [reflexivity|intros []|intros x []|].
  eapply topo_cons; [reflexivity|intros [E|[]]; discriminate|intros x [<-|[]]; left; reflexivity|constructor].
Qed.
(* after the repair (7c40cb0) the old witness has the right law *)
Definition d16_sg_ok : asg := fun _ => 0%nat.                 (* A = state 0 ("1"), B = state 0 ("y") *)
Lemma d16_law : ex (is_row (target [0; 1]%nat d16_sg [])) (forward_law d16_bn [0; 1]%nat) = 0.
Proof. apply Qc_is_canon. vm_compute. reflexivity. Qed.
Lemma d16_law_ok : ex (is_row (target [0; 1]%nat d16_sg_ok [])) (forward_law d16_bn [0; 1]%nat) = q 9 10.
Proof. apply Qc_is_canon. vm_compute. reflexivity. Qed.

(* ---------------------------------------------------------------- conditioning (posterior) *)
Definition cond {X} (P : X -> bool) (d : dist X) : dist X := scale (/ wt P d) (restrict P d).
Lemma wt_restrict {X} (P : X -> bool) (d : dist X) : mass (restrict P d) = wt P d.
Proof. unfold mass, wt. rewrite ex_restrict. apply ex_ext. intros a p _. ring. Qed.
Lemma mass_cond {X} (P : X -> bool) (d : dist X) : wt P d <> 0 -> mass (cond P d) = 1.
Proof.
  intros H. unfold cond. unfold mass at 1. rewrite ex_scale. fold (mass (restrict P d)). rewrite wt_restrict.
  field. exact H.
Qed.
Lemma always_cond {X} (P : X -> bool) (d : dist X) : always (fun a => P a = true) (cond P d).
Proof.
  intros a p Hin. unfold cond, scale in Hin. apply in_map_iff in Hin. destruct Hin as [[a' p'] [E Hin]].
  simpl in E. inversion E; subst. eapply always_restrict. exact Hin.
Qed.

(* ---------------------------------------------------------------- latent columns *)
Lemma memv'_In x l : memv' x l = true <-> In x l.
Proof.
  unfold memv'. rewrite existsb_exists. split.
  - intros [y [Hy E]]. apply Nat.eqb_eq in E. subst. exact Hy.
  - intros H. exists x. split; [exact H|apply Nat.eqb_refl].
Qed.
Lemma out_columns_spec b incl v :
  In v (out_columns b incl) <-> In v (bnodes b) /\ (incl = true \/ ~ In v (blat b)).
Proof.
  unfold out_columns. destruct incl.
  - split; [intros H; split; [exact H|left; reflexivity]|intros [H _]; exact H].
  - rewrite filter_In. rewrite negb_true_iff. split.
    + intros [H1 H2]. split; [exact H1|right]. intros Hl. apply memv'_In in Hl. congruence.
    + intros [H1 [H2|H2]]; [discriminate|]. split; [exact H1|].
      destruct (memv' v (blat b)) eqn:E; [apply memv'_In in E; contradiction|reflexivity].
Qed.

(* ---------------------------------------------------------------- the batch model weights every row by its OWN column *)
Lemma all_ok_Forall2 {A B} (f : A -> res B) (l : list A) : forall r,
  all_ok (map f l) = Ok r -> Forall2 (fun x y => f x = Ok y) l r.
Proof.
  induction l as [|x l IH]; intros r H; simpl in H.
  - inversion H. constructor.
  - destruct (f x) as [y|e] eqn:E; [|discriminate].
    destruct (all_ok (map f l)) as [r'|e]; [|discriminate]. inversion H; subst.
    constructor; [exact E|apply IH; reflexivity].
Qed.

Lemma lw_evidence_node_rowwise b c e rows rows' :
  lw_evidence_node b c e rows = Ok rows' ->
  Forall2 (fun rw rw' => exists w, node_dist b c (lw_evid c) (fst rw) = Ok w /\
                                   rw' = ((cvar c, e) :: fst rw, snd rw * nth e w 0)) rows rows'.
Proof.
  intros H. unfold lw_evidence_node in H. apply all_ok_Forall2 in H.
  induction H as [|rw rw' rows rows' Hx _ IH]; constructor; [|exact IH].
  destruct (node_dist b c (lw_evid c) (fst rw)) as [w|x]; [|discriminate].
  exists w. split; [reflexivity|]. inversion Hx. reflexivity.
Qed.

(* ---------------------------------------------------------------- simulate(): the CPDs it installs are proper columns *)
Lemma point_mass_zero (names : list name) st : ~ In st names ->
  qsum (map (fun s => if Z.eqb s st then 1 else 0) names) = 0.
Proof.
  induction names as [|y t IH]; intros H; [reflexivity|]. simpl.
  destruct (Z.eqb y st) eqn:E; [apply Z.eqb_eq in E; exfalso; apply H; left; exact E|].
  rewrite IH by (intros Hi; apply H; right; exact Hi). ring.
Qed.
Lemma point_mass_sum (names : list name) st : NoDup names -> In st names ->
  qsum (map (fun s => if Z.eqb s st then 1 else 0) names) = 1.
Proof.
  induction names as [|y t IH]; intros Hn Hin; [destruct Hin|]. inversion Hn as [|? ? Hy Hn']; subst. simpl.
  destruct (Z.eqb y st) eqn:E.
  - apply Z.eqb_eq in E. subst. rewrite point_mass_zero by exact Hy. ring.
  - destruct Hin as [->|Hin]; [rewrite Z.eqb_refl in E; discriminate|]. rewrite IH by assumption. ring.
Qed.
Lemma nth_map_lt {A B} (f : A -> B) (l : list A) d d' : forall k, (k < length l)%nat ->
  nth k (map f l) d = f (nth k l d').
Proof. induction l as [|x l IH]; intros [|k] H; simpl in *; try lia; [reflexivity|apply IH; lia]. Qed.
Lemma virt_cpd_column nv x (q : list Qc) k : (k < length q)%nat ->
  nth k (cvals (virt_cpd nv x q)) 0 + nth (length q + k) (cvals (virt_cpd nv x q)) 0 = 1.
Proof.
  intros H. unfold virt_cpd. simpl. rewrite app_nth1 by exact H.
  rewrite app_nth2 by lia. replace (length q + k - length q)%nat with k by lia.
  rewrite (nth_map_lt (fun y => 1 - y) q 0 0 k H). ring.
Qed.

(* ---------------------------------------------------------------- Gibbs chain: every value of every row is a state *)
Definition row_valid (b : bn) (vars : list var) (st : list nat) : Prop :=
  Forall2 (fun v s => (s < cardf b v)%nat) vars st.

Lemma Forall2_set_nth b : forall vars st j d, row_valid b vars st ->
  (d < cardf b (nth j vars 0%nat))%nat -> row_valid b vars (set_nth j d st).
Proof.
  unfold row_valid. intros vars st j d H. revert j. induction H as [|v s vars st Hv H IH]; intros j Hd.
  - destruct j; constructor.
  - destruct j as [|j]; simpl in *; constructor; auto.
Qed.

Lemma take_draws_one card p o ds o' : take_draws card 1 p o = Ok (ds, o') -> (hd 0%nat ds < card)%nat.
Proof.
  unfold take_draws. destruct (length (ostream o) <? 1)%nat eqn:L; [discriminate|].
  destruct (ostream o) as [|x t]; [simpl in L; discriminate|]. simpl.
  destruct (x <? card)%nat eqn:E; [|discriminate]. intros H. inversion H; subst. simpl. apply Nat.ltb_lt. exact E.
Qed.

Lemma gibbs_sweep_valid b fs vars : forall js st o st' o',
  gibbs_sweep b fs vars js st o = Ok (st', o') -> row_valid b vars st -> row_valid b vars st'.
Proof.
  induction js as [|j js IH]; intros st o st' o' H Hv; simpl in H.
  - inversion H; subst. exact Hv.
  - destruct (kernel_row b (factors_of fs (nth j vars 0%nat)) vars (nth j vars 0%nat) (remove_nth j st)); [|discriminate].
    destruct (adjusted l) as [p|e]; [|discriminate].
    destruct (take_draws (cardf b (nth j vars 0%nat)) 1 p o) as [[ds o1]|e] eqn:T; [|discriminate].
    eapply IH; [exact H|]. apply Forall2_set_nth; [exact Hv|]. eapply take_draws_one. exact T.
Qed.

Lemma gibbs_chain_valid b fs vars : forall n st o rows o',
  gibbs_chain b fs vars n st o = Ok (rows, o') -> row_valid b vars st -> Forall (row_valid b vars) rows.
Proof.
  induction n as [|n IH]; intros st o rows o' H Hv; simpl in H.
  - inversion H. constructor.
  - destruct (gibbs_sweep b fs vars (seq 0 (length vars)) st o) as [[st1 o1]|e] eqn:S; [|discriminate].
    destruct (gibbs_chain b fs vars n st1 o1) as [[r o2]|e] eqn:C; [|discriminate]. inversion H; subst.
    assert (Hv1 : row_valid b vars st1) by (eapply gibbs_sweep_valid; eassumption).
    constructor; [exact Hv1|]. eapply IH; eassumption.
Qed.

Lemma gibbs_sample_valid b fs vars size start o rows o' :
  gibbs_sample b fs vars size start o = Ok (rows, o') -> row_valid b vars start ->
  Forall (row_valid b vars) rows /\ hd_error rows = Some start.
Proof.
  unfold gibbs_sample. intros H Hv.
  destruct (gibbs_chain b fs vars (size - 1) start o) as [[r o1]|e] eqn:C; [|discriminate]. inversion H; subst.
  split; [|reflexivity]. constructor; [exact Hv|]. eapply gibbs_chain_valid; eassumption.
Qed.
