(* C07 proofs, part 5: kernel_row's table arithmetic (fprod_list / fred, scope filtering, the name round
   trip of DiscreteFactor.reduce) computes the normalised product of the factors containing v *)
From Coq Require Import List Bool Arith ZArith QArith Qcanon Lia.
From PV Require Import Base.Sx Base.Ravel Base.Semiring Base.FinSum Base.RefFactor C07.Dist C07.Model C07.ProofsGibbs.
Import ListNotations.
Local Open Scope Qc_scope.

(* what StateNameMixin guarantees: card names per variable, no repetition, so number -> name -> number is
   the identity *)
Definition names_ok (b : bn) : Prop :=
  forall u s, (s < cardf b u)%nat ->
    exists x, nth_error (namesf b u) s = Some x /\ index_of x (namesf b u) = Some s.

Lemma combine_fst_snd {A B} (l : list (A * B)) : combine (map fst l) (map snd l) = l.
Proof. induction l as [|[a c] l IH]; simpl; [reflexivity|rewrite IH; reflexivity]. Qed.

Lemma reduce_numbers_id b : names_ok b -> forall l : list (var * nat),
  (forall u k, In (u, k) l -> (k < cardf b u)%nat) ->
  reduce_numbers b (map fst l) (map snd l) = Some (map snd l).
Proof.
  intros N l H. unfold reduce_numbers. rewrite combine_fst_snd.
  set (F := fun vk : var * nat => match state_name b (fst vk) (snd vk) with
                                  | Some x => get_state_no b (fst vk) x | None => None end).
  induction l as [|[u k] l IH]; [reflexivity|]. cbn [traverse map snd].
  assert (HF : F (u, k) = Some k).
  { destruct (N u k (H u k (or_introl eq_refl))) as [x [E1 E2]]. unfold F, state_name, get_state_no. simpl.
    rewrite E1. exact E2. }
  rewrite HF. rewrite IH by (intros u' k' Hin; apply H; right; exact Hin). reflexivity.
Qed.

Lemma valid_upds card a ev : valid card a -> (forall u k, In (u, k) ev -> (k < card u)%nat) -> valid card (upds a ev).
Proof.
  intros Ha. induction ev as [|[u k] ev IH]; intros H; [exact Ha|]. cbn [upds].
  apply valid_upd; [apply IH; intros u' k' Hin; apply H; right; exact Hin|apply H; left; reflexivity].
Qed.
Lemma upds_consistent (a g : asg) ev u :
  (forall w k, In (w, k) ev -> k = g w) -> In u (map fst ev) -> upds a ev u = g u.
Proof.
  induction ev as [|[w k] ev IH]; intros H Hin; [destruct Hin|]. cbn [upds]. unfold upd.
  destruct (Nat.eqb u w) eqn:E.
  - apply Nat.eqb_eq in E. subst. apply (H w k). left. reflexivity.
  - apply IH; [intros w' k' Hi; apply H; right; exact Hi|].
    destruct Hin as [Hin|Hin]; [simpl in Hin; subst; rewrite Nat.eqb_refl in E; discriminate|exact Hin].
Qed.

Lemma filter_single (p : var -> bool) (l : list var) v :
  NoDup l -> In v l -> (forall x, In x l -> (p x = true <-> x = v)) -> filter p l = [v].
Proof.
  induction l as [|y l IH]; intros Hn Hin Hp; [destruct Hin|]. inversion Hn as [|? ? Hy Hn']; subst. simpl.
  destruct (p y) eqn:E.
  - assert (y = v) by (apply Hp; [left; reflexivity|exact E]). subst y. f_equal.
    assert (Hnone : forall x, In x l -> p x = false).
    { intros x Hx. destruct (p x) eqn:Ex; [|reflexivity]. assert (x = v) by (apply Hp; [right; exact Hx|exact Ex]).
      subst. contradiction. }
    clear - Hnone. induction l as [|z l IH]; [reflexivity|]. simpl. rewrite (Hnone z) by (left; reflexivity).
    apply IH. intros x Hx. apply Hnone. right. exact Hx.
  - destruct Hin as [->|Hin]; [assert (p v = true) by (apply Hp; [left; reflexivity|reflexivity]); congruence|].
    apply IH; [exact Hn'|exact Hin|]. intros x Hx. apply Hp. right. exact Hx.
Qed.

Section Kernel.
Variable b : bn.
Notation card := (cardf b).
Notation wff := (wf QR card).

Lemma evp_agree (l : list qfactor) (a a' : asg) :
  (forall g u, In g l -> In u (fvars g) -> a u = a' u) -> evp b l a = evp b l a'.
Proof.
  induction l as [|g l IH]; intros H; [reflexivity|]. rewrite !evp_cons. f_equal.
  - apply (feval_depends_only QR card g). intros u Hu. apply (H g u); [left; reflexivity|exact Hu].
  - apply IH. intros g' u Hg Hu. apply (H g' u); [right; exact Hg|exact Hu].
Qed.

Lemma fvars_fold l : forall acc u,
  In u (fvars (fold_left (fprod QR card) l acc)) <-> In u (fvars acc) \/ exists g, In g l /\ In u (fvars g).
Proof.
  induction l as [|f l IH]; intros acc u; simpl.
  - split; [auto|intros [H|[g [[] _]]]; exact H].
  - rewrite IH. rewrite fvars_fprod, In_vunion. split.
    + intros [[H|H]|[g [Hg Hu]]]; [left; exact H|right; exists f; auto|right; exists g; auto].
    + intros [H|[g [[<-|Hg] Hu]]]; [left; left; exact H|left; right; exact Hu|right; exists g; auto].
Qed.

(* the factor the kernel reduces *)
Definition ksel (l : list qfactor) : qfactor := match l with [f1] => f1 | _ => fprod_list QR card l end.

Lemma ksel_wf l : Forall wff l -> wff (ksel l).
Proof.
  intros H. destruct l as [|f1 [|f2 l]]; simpl.
  - apply wf_fold_fprod; [apply wf_fbuild; constructor|constructor].
  - inversion H; assumption.
  - apply (wf_fold_fprod QR card (f1 :: f2 :: l)); [apply wf_fbuild; constructor|exact H].
Qed.
Lemma ksel_eval l a : Forall wff l -> valid card a -> feval QR card (ksel l) a = evp b l a.
Proof.
  intros H Hv. destruct l as [|f1 [|f2 l]]; simpl ksel.
  - apply (feval_fprod_list QR card []); assumption.
  - rewrite evp_cons, evp_nil. symmetry. apply Qcmult_1_r.
  - apply (feval_fprod_list QR card (f1 :: f2 :: l)); assumption.
Qed.
Lemma ksel_vars l u : In u (fvars (ksel l)) <-> exists g, In g l /\ In u (fvars g).
Proof.
  destruct l as [|f1 [|f2 l]]; simpl ksel.
  - unfold fprod_list. rewrite fvars_fold. simpl. split; [intros [[]|H]; exact H|intros H; right; exact H].
  - split; [intros H; exists f1; split; [left; reflexivity|exact H]|intros [g [[<-|[]] H]]; exact H].
  - unfold fprod_list. rewrite fvars_fold. simpl fvars at 1. split; [intros [[]|H]; exact H|intros H; right; exact H].
Qed.

Variable fs : list qfactor.
Variable vars : list var.
Variable v : var.
Variable sg : asg.
Hypothesis Hwf : Forall wff fs.
Hypothesis Hval : valid card sg.
Hypothesis Hscope : forall g u, In g (factors_of fs v) -> In u (fvars g) -> In u vars.
Hypothesis Hne : factors_of fs v <> [].
Hypothesis Hnames : names_ok b.

Let Fv := factors_of fs v.
Let f := ksel Fv.
Let others := filter (fun w => negb (Nat.eqb w v)) vars.
Let st := filter (fun ws : var * nat => memv (fst ws) (fvars f)) (combine others (map sg others)).

Lemma Fv_wf : Forall wff Fv.
Proof. apply Forall_forall. intros g Hg. apply filter_In in Hg. eapply Forall_forall in Hwf; [exact Hwf|exact (proj1 Hg)]. Qed.
Lemma Fv_has_v g : In g Fv -> In v (fvars g).
Proof. intros Hg. apply filter_In in Hg. apply memv_In. exact (proj2 Hg). Qed.
Lemma Fv_nonempty : exists g, In g Fv.
Proof.
  unfold Fv. destruct (factors_of fs v) as [|g l]; [exfalso; apply Hne; reflexivity|]. exists g. left. reflexivity.
Qed.
Lemma v_in_f : In v (fvars f).
Proof. apply ksel_vars. destruct Fv_nonempty as [g Hg]. exists g. split; [exact Hg|apply Fv_has_v; exact Hg]. Qed.

Lemma in_combine_map (l : list var) u k : In (u, k) (combine l (map sg l)) -> k = sg u /\ In u l.
Proof.
  induction l as [|w l IH]; simpl; [intros []|]. intros [E|H]; [inversion E; subst; auto|].
  destruct (IH H); auto.
Qed.
Lemma st_spec u k : In (u, k) st -> k = sg u /\ u <> v /\ In u (fvars f).
Proof.
  intros H. apply filter_In in H. destruct H as [H1 H2]. simpl in H2. apply memv_In in H2.
  apply in_combine_map in H1. destruct H1 as [E Ho]. apply filter_In in Ho. destruct Ho as [_ Hn].
  apply negb_true_iff, Nat.eqb_neq in Hn. auto.
Qed.
Lemma st_covers u : In u (fvars f) -> u <> v -> In u (map fst st).
Proof.
  intros Hu Hn. apply in_map_iff. exists (u, sg u). split; [reflexivity|]. apply filter_In. split.
  - assert (Ho : In u others).
    { apply filter_In. split; [|apply negb_true_iff, Nat.eqb_neq; exact Hn].
      apply ksel_vars in Hu. destruct Hu as [g [Hg Hu]]. eapply Hscope; eassumption. }
    clear - Ho. induction others as [|w l IH]; [destruct Ho|]. simpl. destruct Ho as [->|Ho]; [left; reflexivity|right; auto].
  - simpl. apply memv_In. exact Hu.
Qed.
Lemma v_not_in_st : ~ In v (map fst st).
Proof. intros H. apply in_map_iff in H. destruct H as [[u k] [E H]]. simpl in E. subst. apply st_spec in H. tauto. Qed.

Lemma card_pos u : (0 < card u)%nat.
Proof. specialize (Hval u). lia. Qed.

Lemma rf_vars : fvars (fred QR card st f) = [v].
Proof.
  rewrite fvars_fred. unfold vminus. apply filter_single.
  - exact (proj1 (ksel_wf Fv Fv_wf)).
  - exact v_in_f.
  - intros x Hx. rewrite negb_true_iff, memv_false. split.
    + intros Hn. destruct (Nat.eq_dec x v) as [E|E]; [exact E|]. exfalso. apply Hn. apply st_covers; assumption.
    + intros ->. exact v_not_in_st.
Qed.

Lemma rf_vals : fvals (fred QR card st f) = map (local_at b fs v sg) (states b v).
Proof.
  assert (Hv := rf_vars). unfold fred in *. unfold fbuild in *. simpl in Hv. simpl fvals. rewrite Hv.
  unfold t_build. simpl map at 2. simpl prod. rewrite Nat.mul_1_r. unfold states. apply map_ext_in.
  intros n Hn. apply in_seq in Hn. cbn [unravel prod fold_right]. rewrite Nat.div_1_r. cbn [asg_of].
  set (z := fun _ : var => 0%nat).
  assert (Hz : valid card (upds (upd z v n) st)).
  { apply valid_upds.
    - apply valid_upd; [intros u; apply card_pos|lia].
    - intros u k Hin. destruct (st_spec u k Hin) as [-> _]. apply Hval. }
  transitivity (evp b Fv (upds (upd z v n) st)); [exact (ksel_eval Fv _ Fv_wf Hz)|]. unfold local_at. apply evp_agree.
  intros g u Hg Hu. assert (Huf : In u (fvars f)) by (apply ksel_vars; exists g; auto).
  destruct (Nat.eq_dec u v) as [->|E].
  - rewrite upds_other by exact v_not_in_st. rewrite !upd_same. reflexivity.
  - rewrite upd_other by exact E. apply upds_consistent.
    + intros w k Hin. exact (proj1 (st_spec w k Hin)).
    + apply st_covers; assumption.
Qed.

Theorem gibbs_kernel_full_conditional :
  full_cond_defined b fs v sg ->
  kernel_row b (factors_of fs v) vars v (map sg others) = Some (full_conditional b fs v sg).
Proof.
  intros Hd. unfold kernel_row. fold Fv. change (match Fv with [f1] => f1 | _ => fprod_list QR card Fv end) with f.
  fold others. fold st.
  rewrite (reduce_numbers_id b Hnames st) by (intros u k Hin; destruct (st_spec u k Hin) as [-> _]; apply Hval).
  rewrite combine_fst_snd. rewrite rf_vals. apply local_normalised_is_full_conditional. exact Hd.
Qed.
End Kernel.
