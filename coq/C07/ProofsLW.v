(* C07 proofs, part 2: likelihood weighting *)
From Coq Require Import List Bool Arith ZArith QArith Qcanon Lia.
From PV Require Import Base.Sx Base.Ravel Base.Semiring Base.FinSum Base.RefFactor C07.Dist C07.Model C07.ProofsForward.
Import ListNotations.
Local Open Scope Qc_scope.

(* the factor an evidence node contributes to the weight *)
Definition ev_factor (b : bn) (ev : list (var * nat)) (sg : asg) (v : var) : Qc :=
  match assoc ev v with Some _ => cpd_entry b v sg | None => 1 end.
Definition ev_in_range (b : bn) (ev : list (var * nat)) (rest : list var) : Prop :=
  forall v e, In v rest -> assoc ev v = Some e -> (e < cardf b v)%nat.

Lemma entry_of_col b c v sg sg' done e :
  wf_bn b -> In c (bcpds b) -> cvar c = v -> ~ In v done -> incl (cpars c) done ->
  (forall u, In u done -> sg' u = sg u) -> sg' v = e -> (e < cardf b v)%nat -> get_cpd b v = Some c ->
  nth e (col_of b c sg) 0 = cpd_entry b v sg'.
Proof.
  intros W Hc Hv Hnew Hinc Hag He Hlt Hget. rewrite col_of_nth by (rewrite Hv; exact Hlt).
  unfold cpd_entry. rewrite Hget. apply (feval_depends_only QR (cardf b) (cfactor c)). intros u Hu. unfold cfactor, cscope in Hu. simpl in Hu.
  rewrite Hv in *. destruct Hu as [<-|Hu]; [rewrite upd_same; symmetry; exact He|].
  assert (u <> v) by (intros ->; apply Hnew; apply Hinc; exact Hu).
  rewrite upd_other by assumption. symmetry. apply Hag. apply Hinc. exact Hu.
Qed.

Lemma lw_weight_gen b ev : wf_bn b -> forall rest done r w sg,
  topo b done rest -> holds b done r sg -> ev_in_range b ev rest ->
  always (fun x => exists sg', (forall u, In u done -> sg' u = sg u) /\ fst x = target rest sg' r /\
                               (forall v, In v rest -> (sg' v < cardf b v)%nat) /\
                               (forall v e, In v rest -> assoc ev v = Some e -> sg' v = e) /\
                               snd x = w * qprod (map (ev_factor b ev sg') rest))
         (lw_dist b rest ev (r, w)).
Proof.
  intros W. induction rest as [|v rest IH]; intros done r w sg Ht Hh Hev.
  - simpl. apply always_ret. exists sg. split; [reflexivity|]. split; [reflexivity|]. split; [intros ? []|].
    split; [intros ? ? []|]. simpl. ring.
  - inversion Ht as [|d v' c rest' Hget Hnew Hinc Ht']; subst.
    destruct (get_cpd_In _ _ _ Hget) as [Hc Hv].
    assert (Hev' : ev_in_range b ev rest) by (intros u e Hu; apply Hev; right; exact Hu).
    simpl lw_dist. rewrite Hget. simpl fst. simpl snd. destruct (assoc ev v) as [e|] eqn:Ea.
    + assert (He : (e < cardf b v)%nat) by (apply (Hev v e); [left; reflexivity|exact Ea]).
      rewrite (node_dist_col b c (lw_evid c) r sg done W Hc (evid_lw c) Hinc Hh).
      intros x px Hx.
      destruct (IH (v :: done) ((v, e) :: r) (w * nth e (col_of b c sg) 0) (upd sg v e) Ht'
                   (holds_upd b done r sg v e Hnew Hh He) Hev' x px Hx) as [sg' [Hag [E [Hr [Hfix Hw]]]]].
      assert (Hsv : sg' v = e) by (rewrite Hag by (left; reflexivity); apply upd_same).
      assert (Hag' : forall u, In u done -> sg' u = sg u).
      { intros u Hu. rewrite Hag by (right; exact Hu). apply upd_other. intros ->. contradiction. }
      exists sg'. split; [exact Hag'|]. split; [rewrite target_cons, Hsv; exact E|]. split; [|split].
      * intros u [->|Hu]; [rewrite Hsv; exact He|apply Hr; exact Hu].
      * intros u e' [->|Hu] Ha; [congruence|eapply Hfix; eassumption].
      * rewrite Hw. simpl. unfold ev_factor at 2. rewrite Ea.
        rewrite (entry_of_col b c v sg sg' done e W Hc Hv Hnew Hinc Hag' Hsv He Hget). ring.
    + rewrite (node_w_col b c (lw_evid c) r sg done W Hc (evid_lw c) Hinc Hh).
      apply always_bind. intros s q Hs. apply always_draw in Hs. rewrite col_of_length, Hv in Hs.
      intros x px Hx.
      destruct (IH (v :: done) ((v, s) :: r) w (upd sg v s) Ht'
                   (holds_upd b done r sg v s Hnew Hh Hs) Hev' x px Hx) as [sg' [Hag [E [Hr [Hfix Hw]]]]].
      assert (Hsv : sg' v = s) by (rewrite Hag by (left; reflexivity); apply upd_same).
      exists sg'. split; [|split; [rewrite target_cons, Hsv; exact E|split; [|split]]].
      * intros u Hu. rewrite Hag by (right; exact Hu). apply upd_other. intros ->. contradiction.
      * intros u [->|Hu]; [rewrite Hsv; exact Hs|apply Hr; exact Hu].
      * intros u e' [->|Hu] Ha; [congruence|eapply Hfix; eassumption].
      * rewrite Hw. simpl. unfold ev_factor at 2. rewrite Ea. ring.
Qed.

(* ---------------------------------------------------------------- unbiasedness *)
Lemma lw_shape b ev : forall rest rw,
  always (fun x => exists pre, fst x = pre ++ fst rw /\ length pre = length rest) (lw_dist b rest ev rw).
Proof.
  induction rest as [|v rest IH]; intros rw; simpl.
  - apply always_ret. exists []. split; reflexivity.
  - destruct (get_cpd b v) as [c|]; [|apply always_fail].
    destruct (assoc ev v) as [e|].
    + match goal with |- context [match ?X with Ok _ => _ | Err _ => _ end] => destruct X as [w|code] end; [|apply always_fail].
      intros x px Hx. destruct (IH _ x px Hx) as [pre [E L]]. simpl in E.
      exists (pre ++ [(v, e)]). split; [rewrite <- app_assoc; exact E|rewrite app_length; simpl; lia].
    + match goal with |- context [match ?X with Ok _ => _ | Err _ => _ end] => destruct X as [p|code] end; [|apply always_fail].
      apply always_bind. intros s q _. intros x px Hx. destruct (IH _ x px Hx) as [pre [E L]]. simpl in E.
      exists (pre ++ [(v, s)]). split; [rewrite <- app_assoc; exact E|rewrite app_length; simpl; lia].
Qed.

Definition wrow_val (t : prow) (x : wrow) : Qc := snd x * is_row t (fst x).

Lemma lw_other_zero b ev rest r w v s s' sg : s <> s' ->
  ex (wrow_val (target rest sg ((v, s') :: r))) (lw_dist b rest ev ((v, s) :: r, w)) = 0.
Proof.
  intros Hne. eapply ex_always_zero; [apply lw_shape|]. intros x [pre [E L]]. unfold wrow_val, is_row.
  destruct (prow_eq_dec (fst x) (target rest sg ((v, s') :: r))) as [E2|_]; [|ring]. exfalso.
  pose proof (eq_trans (eq_sym E) E2) as E3. clear E E2. simpl in E3. unfold target in E3. apply app_inv_len in E3.
  - destruct E3 as [_ E]. inversion E. congruence.
  - rewrite rev_length, map_length. exact L.
Qed.

Lemma lw_unbiased_gen b ev : wf_bn b -> forall rest done r w sg,
  topo b done rest -> holds b done r sg -> (forall v, In v rest -> (sg v < cardf b v)%nat) ->
  (forall v e, In v rest -> assoc ev v = Some e -> sg v = e) ->
  ex (wrow_val (target rest sg r)) (lw_dist b rest ev (r, w)) = w * qprod (map (fun v => cpd_entry b v sg) rest).
Proof.
  intros W. induction rest as [|v rest IH]; intros done r w sg Ht Hh Hr Hfix.
  - simpl. rewrite ex_ret. unfold wrow_val, is_row, target. simpl.
    destruct (prow_eq_dec r r); [ring|congruence].
  - inversion Ht as [|d v' c rest' Hget Hnew Hinc Ht']; subst.
    destruct (get_cpd_In _ _ _ Hget) as [Hc Hv].
    assert (Hsv : (sg v < cardf b v)%nat) by (apply Hr; left; reflexivity).
    assert (Hentry : nth (sg v) (col_of b c sg) 0 = cpd_entry b v sg).
    { apply (entry_of_col b c v sg sg done (sg v)); auto. }
    simpl lw_dist. rewrite Hget. simpl fst. simpl snd. destruct (assoc ev v) as [e|] eqn:Ea.
    + assert (He : sg v = e) by (apply (Hfix v e); [left; reflexivity|exact Ea]). subst e.
      rewrite (node_dist_col b c (lw_evid c) r sg done W Hc (evid_lw c) Hinc Hh).
      rewrite target_cons.
      rewrite (IH (v :: done) ((v, sg v) :: r) _ sg Ht').
      * simpl. rewrite Hentry. ring.
      * apply holds_cons; assumption.
      * intros u Hu. apply Hr. right. exact Hu.
      * intros u e Hu. apply Hfix. right. exact Hu.
    + rewrite (node_w_col b c (lw_evid c) r sg done W Hc (evid_lw c) Hinc Hh).
      rewrite ex_bind, ex_draw, col_of_length, Hv.
      rewrite (qsum_seq_single _ (sg v)); [|lia|].
      * rewrite target_cons. rewrite Hentry.
        transitivity (cpd_entry b v sg * (w * qprod (map (fun v0 => cpd_entry b v0 sg) rest))); [|simpl; ring].
        f_equal. apply (IH (v :: done) ((v, sg v) :: r) w sg Ht').
        -- apply holds_cons; assumption.
        -- intros u Hu. apply Hr. right. exact Hu.
        -- intros u e Hu. apply Hfix. right. exact Hu.
      * intros s Hs. rewrite target_cons. rewrite lw_other_zero by exact Hs. ring.
Qed.
