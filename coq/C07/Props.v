(* C07 property theorems.  Law statements are about the Dist semantics of ONE row (Model.forward_law,
   Model.lw_law), which uses the same weight function [node_w]/[node_dist] as the draw-oracle model that
   is run against pgmpy; the only probabilistic assumption is Dist.draw (an index drawn with weight
   vector p has law p; successive draws are independent). *)
From Coq Require Import List Bool Arith ZArith QArith Qcanon Lia.
From PV Require Import Base.Sx Base.Ravel Base.Semiring Base.FinSum Base.RefFactor.
From PV Require Import C07.Dist C07.Model C07.ProofsForward C07.ProofsLW C07.ProofsMisc C07.ProofsGibbs C07.ProofsKernel C07.ProofsAdjust.
Import ListNotations.
Local Open Scope Qc_scope.

Definition row_of (order : list var) (sg : asg) : prow := target order sg [].
Definition in_range (b : bn) (order : list var) (sg : asg) : Prop := forall v, In v order -> (sg v < cardf b v)%nat.
Definition joint (b : bn) (order : list var) (sg : asg) : Qc := qprod (map (fun v => cpd_entry b v sg) order).

(* non-vacuity: a well-formed network (A -> B; A has the permuted integer state names [1; 0]) *)
Example ex_bn_hyps : wf_bn d16_bn /\ topo d16_bn [] [0; 1]%nat /\ in_range d16_bn [0; 1]%nat d16_sg.
Proof. split; [exact d16_wf|]. split; [exact d16_topo|]. intros v [<-|[<-|[]]]; cbv; lia. Qed.

(* Forward samples follow the joint: for every well-formed network (ANY state names), every topological
   order and every in-range assignment, the law of the forward-sampled row is the product of the CPD
   entries.  Unbounded. *)
Theorem C07_forward_law : forall b order sg,
  wf_bn b -> topo b [] order -> in_range b order sg ->
  ex (is_row (row_of order sg)) (forward_law b order) = joint b order sg.
Proof.
  intros b order sg W T R. unfold forward_law, row_of, joint.
  apply (fwd_law_gen b W order [] [] sg T); [intros u []|exact R].
Qed.
Print Assumptions C07_forward_law.

(* D16 (repaired by 7c40cb0): the former counterexample (A has names [1; 0]) now has the right law: the
   row (A = "1", B = "n") of joint probability 0 has law 0, the row (A = "1", B = "y") has law 9/10. *)
Example d16_witness_now_correct :
  ex (is_row (row_of [0; 1]%nat d16_sg)) (forward_law d16_bn [0; 1]%nat) = 0 /\
  ex (is_row (row_of [0; 1]%nat d16_sg_ok)) (forward_law d16_bn [0; 1]%nat) = q 9 10 /\
  joint d16_bn [0; 1]%nat d16_sg_ok = q 9 10.
Proof.
  split; [exact d16_law|]. split; [exact d16_law_ok|]. apply Qc_is_canon. vm_compute. reflexivity.
Qed.

(* Every value is a valid state of its column, and a row with a zero CPD entry has law zero. *)
Theorem C07_support : forall b order,
  wf_bn b -> topo b [] order ->
  always (fun x => exists sg, x = row_of order sg /\ in_range b order sg) (forward_law b order) /\
  (forall sg v, in_range b order sg -> In v order -> cpd_entry b v sg = 0 ->
                ex (is_row (row_of order sg)) (forward_law b order) = 0).
Proof.
  intros b order W T. split.
  - intros x p Hx.
    destruct (fwd_support_gen b W order [] [] (fun _ => 0%nat) T (fun u (H : In u []) => match H with end) x p Hx)
      as [sg' [_ [E R]]].
    exists sg'. split; assumption.
  - intros sg v R Hv Hz. rewrite (C07_forward_law b order sg W T R). unfold joint. apply qprod_zero.
    apply in_map_iff. exists v. split; assumption.
Qed.
Print Assumptions C07_support.

(* Rejection sampling: (1) whenever the loop returns, exactly `size` rows, each agreeing with the
   evidence (state NAMES), for every oracle, fuel, partial samples, batch sizes; *)
Theorem C07_rejection_agrees_and_size : forall fuel b order ev size partial psize o rows sz o',
  ev <> [] ->
  rejection_rows fuel b order ev size partial psize o = Ok (rows, sz, o') ->
  length rows = size /\ Forall (fun r => agrees b ev r = true) rows.
Proof.
  intros fuel b order ev size partial psize o rows sz o' Hne H. unfold rejection_rows in H.
  destruct ev as [|e ev]; [congruence|].
  eapply rej_loop_post; [exact H|simpl; lia|constructor].
Qed.
Print Assumptions C07_rejection_agrees_and_size.

(* (2) the law of ONE forward row conditioned on passing the evidence filter ([cond] = keep the accepted
   outcomes and divide by the acceptance mass) is the posterior: joint(x) / P(e) for rows that agree with
   the evidence, 0 otherwise, where P(e) = wt acc forward_law is the forward-law (= joint, by
   C07_forward_law) probability of the evidence event; the conditioned law has mass 1 and every outcome
   agrees with the evidence.  The loop returns the first `size` accepted rows of successive batches
   (C07_rejection_agrees_and_size); that accepted rows of different batches are independent copies of this
   one-row law is part of the RNG assumption (independent draws), not a theorem. *)
Theorem C07_rejection_law : forall b order sg (acc : prow -> bool),
  wf_bn b -> topo b [] order -> in_range b order sg ->
  wt acc (forward_law b order) <> 0 ->
  ex (is_row (row_of order sg)) (cond acc (forward_law b order))
    = ind (acc (row_of order sg)) * joint b order sg / wt acc (forward_law b order) /\
  mass (cond acc (forward_law b order)) = 1 /\
  always (fun x => acc x = true) (cond acc (forward_law b order)).
Proof.
  intros b order sg acc W T R H. split; [|split; [apply mass_cond; exact H|apply always_cond]].
  unfold cond. rewrite ex_scale, accepted_law, (C07_forward_law b order sg W T R). field. exact H.
Qed.
Print Assumptions C07_rejection_law.

(* Likelihood weighting: every outcome (row, weight) is the row of an in-range assignment that has the
   evidence values on the evidence columns, and its weight is the product over the evidence variables of
   their CPD entries given the sampled parents. *)
Theorem C07_lw_weight : forall b order ev,
  wf_bn b -> topo b [] order -> ev_in_range b ev order ->
  always (fun x => exists sg, fst x = row_of order sg /\ in_range b order sg /\
                              (forall v e, In v order -> assoc ev v = Some e -> sg v = e) /\
                              snd x = qprod (map (ev_factor b ev sg) order))
         (lw_law b order ev).
Proof.
  intros b order ev W T R x p Hx.
  destruct (lw_weight_gen b ev W order [] [] 1 (fun _ => 0%nat) T (fun u (H : In u []) => match H with end) R x p Hx)
    as [sg' [_ [E [Hr [Hf Hw]]]]].
  exists sg'. split; [exact E|]. split; [exact Hr|]. split; [exact Hf|]. rewrite Hw. ring.
Qed.
Print Assumptions C07_lw_weight.

(* ... and the weighted law is unbiased for the joint with the evidence: E[w * 1(row = x)] = P(x) for
   every x that carries the evidence values (for other x the expectation is 0 by C07_lw_weight). *)
Theorem C07_lw_unbiased : forall b order ev sg,
  wf_bn b -> topo b [] order -> in_range b order sg ->
  (forall v e, In v order -> assoc ev v = Some e -> sg v = e) ->
  ex (wrow_val (row_of order sg)) (lw_law b order ev) = joint b order sg.
Proof.
  intros b order ev sg W T R F. unfold lw_law, row_of, joint.
  transitivity (1 * qprod (map (fun v => cpd_entry b v sg) order)); [|ring].
  apply (lw_unbiased_gen b ev W order [] [] 1 sg T); [intros u []|exact R|exact F].
Qed.
Print Assumptions C07_lw_unbiased.

(* Gibbs kernels equal the full conditional.  fs = ALL factors of the model (the CPDs of a Bayesian
   network, or the factors of a Markov network), vars = the chain's variables, sg = the current state.
   kernel_row multiplies the factors whose scope contains v (fprod_list, or the single factor), reduces
   the product by the other variables' states (handed over as state NAMES and resolved back to numbers,
   as DiscreteFactor.reduce does) and normalises; the result is P(v | all others) of the product of ALL
   factors whenever that conditional is defined (non-zero normaliser).  Unbounded; any state names that
   are distinct per variable (names_ok: what StateNameMixin enforces). *)
Theorem C07_gibbs_kernel_full_conditional : forall b fs vars v sg,
  Forall (wf QR (cardf b)) fs -> valid (cardf b) sg -> names_ok b ->
  (forall g u, In g (factors_of fs v) -> In u (fvars g) -> In u vars) ->
  factors_of fs v <> [] ->
  full_cond_defined b fs v sg ->
  kernel_row b (factors_of fs v) vars v (map sg (filter (fun w => negb (Nat.eqb w v)) vars))
    = Some (full_conditional b fs v sg).
Proof.
  intros b fs vars v sg Hwf Hval Hn Hs Hne Hd. exact (gibbs_kernel_full_conditional b fs vars v sg Hwf Hval Hs Hne Hn Hd).
Qed.
Print Assumptions C07_gibbs_kernel_full_conditional.

(* Latent columns appear only when requested: the columns of every returned frame are the model's nodes,
   minus the latents unless include_latents; every row of the frame has exactly these cells. *)
Theorem C07_latent_columns : forall b incl rows,
  (forall v, In v (out_columns b incl) <-> In v (bnodes b) /\ (incl = true \/ ~ In v (blat b))) /\
  Forall (fun r => length r = length (out_columns b incl)) (named_frame b incl rows).
Proof.
  intros b incl rows. split; [intros v; apply out_columns_spec|].
  unfold named_frame. apply Forall_forall. intros r Hr. apply in_map_iff in Hr. destruct Hr as [x [<- _]].
  unfold named_row. apply map_length.
Qed.
Print Assumptions C07_latent_columns.

(* The BATCH (draw-oracle) model weights every row by the column of ITS OWN sampled parent configuration:
   at an evidence node each row's weight is multiplied by entry e of node_dist for that row - rows are
   never grouped, so two parent configurations whose columns differ (however slightly: 0 vs 1e-9) give
   different factors.  pgmpy reaches the rows through an index of unique weight vectors; the correspondence
   run compares its weights with this model at 1e-13 relative on CPDs with near-identical distinct columns. *)
Theorem C07_lw_batch_rowwise : forall b c e rows rows',
  lw_evidence_node b c e rows = Ok rows' ->
  Forall2 (fun rw rw' => exists w, node_dist b c (lw_evid c) (fst rw) = Ok w /\
                                   rw' = ((cvar c, e) :: fst rw, snd rw * nth e w 0)) rows rows'.
Proof. exact lw_evidence_node_rowwise. Qed.
Print Assumptions C07_lw_batch_rowwise.

(* Gibbs chain (GibbsSampling.sample): started from a state whose every value is a state number of its variable
   (0 <= s < card: the verdict MarkovChain._check_state must reach, run_c07_start_ok), the chain's first row IS the
   start state and every value of every row is a state number of its column, for every oracle. *)
Theorem C07_gibbs_rows_valid : forall b fs vars size start o rows o',
  gibbs_sample b fs vars size start o = Ok (rows, o') -> row_valid b vars start ->
  Forall (row_valid b vars) rows /\ hd_error rows = Some start.
Proof. exact gibbs_sample_valid. Qed.
Print Assumptions C07_gibbs_rows_valid.

(* simulate(): the CPDs the wrapper installs are proper columns, so the forward / rejection theorems apply to the
   network it samples from: an intervened variable gets a parent-free point mass on its do-value (sum 1, for
   state names without repetition that contain the value - what simulate checks), and the auxiliary child of a
   virtual evidence / virtual intervention on x has, for every state k of x, the column (q_k, 1 - q_k). *)
Theorem C07_simulate_surgery_columns :
  (forall b c st, NoDup (namesf b (cvar c)) -> In st (namesf b (cvar c)) ->
     cpars (do_cpd b c st) = [] /\ qsum (cvals (do_cpd b c st)) = 1) /\
  (forall nv x (q : list Qc) k, (k < length q)%nat ->
     nth k (cvals (virt_cpd nv x q)) 0 + nth (length q + k) (cvals (virt_cpd nv x q)) 0 = 1).
Proof.
  split.
  - intros b c st Hn Hi. split; [reflexivity|]. unfold do_cpd. simpl. apply point_mass_sum; assumption.
  - intros nv x q k H. apply virt_cpd_column. exact H.
Qed.
Print Assumptions C07_simulate_surgery_columns.

(* What the property needs from _adjusted_weights.  Every law theorem above is about the ADJUSTED vector:
   Model.fwd_dist / lw_dist draw from [node_w] = adjusted (node_dist ...), the vector pgmpy hands to
   numpy.random.choice (compared call by call in the correspondence run).  Under wf_bn the columns sum to
   exactly 1 and the adjustment is the identity; for a vector that is within 1e-3 of 1 (decimal-rounded
   root priors) the adjustment keeps the length, changes ONLY the first maximal entry, by the residual
   1 - sum, makes the sum exactly 1, and - for non-negative input - leaves every entry that is exactly 0 at 0,
   so a zero-probability state has law 0 in the draw. *)
Theorem C07_adjusted_weights_support : forall w w',
  adjusted w = Ok w' ->
  length w' = length w /\
  qsum w' = 1 /\
  (forall i, i <> argmax w -> nth i w' 0 = nth i w 0) /\
  nth (argmax w) w' 0 = nth (argmax w) w 0 + (1 - qsum w) /\
  ((forall j, (j < length w)%nat -> 0 <= nth j w 0) ->
   forall k, nth k w 0 = 0 -> nth k w' 0 = 0 /\ wt (Nat.eqb k) (draw w') = 0).
Proof.
  intros w w' H. destruct (adjusted_support w w' H) as [A [B [C [D E]]]].
  split; [exact A|]. split; [exact B|]. split; [exact C|]. split; [exact D|].
  intros Hpos k Hk. split; [apply E; assumption|]. rewrite wt_draw. apply E; assumption.
Qed.
Print Assumptions C07_adjusted_weights_support.

(* A fixed seed reproduces the samples.  In the model this holds BY CONSTRUCTION (the samplers are
   functions of the oracle stream); its content is carried by the correspondence run (pgmpy consumes the
   same oracle answers and returns the same frames) and by the same-seed structural test. *)
Theorem C07_deterministic_given_oracle : forall b order size partial ev fuel psize o1 o2,
  o1 = o2 ->
  forward_rows b order size partial o1 = forward_rows b order size partial o2 /\
  rejection_rows fuel b order ev size partial psize o1 = rejection_rows fuel b order ev size partial psize o2 /\
  lw_rows b order ev size o1 = lw_rows b order ev size o2.
Proof. intros; subst; repeat split. Qed.
Print Assumptions C07_deterministic_given_oracle.
