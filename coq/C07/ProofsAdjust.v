(* C07 proofs, part 6: what the samplers need from _adjusted_weights *)
From Coq Require Import List Bool Arith ZArith QArith Qcanon Lia.
From PV Require Import C07.Dist C07.Model.
Import ListNotations.
Local Open Scope Qc_scope.

Lemma skipn_cons_nth {A} (d : A) : forall i (w : list A) x t,
  skipn i w = x :: t -> nth i w d = x /\ skipn (S i) w = t /\ (i < length w)%nat.
Proof.
  induction i as [|i IH]; intros [|y w] x t H; simpl in H; try discriminate.
  - inversion H; subst. simpl. repeat split. lia.
  - destruct (IH w x t H) as [A1 [A2 A3]]. simpl. repeat split; [exact A1|exact A2|lia].
Qed.

Lemma argmax_from_spec (w : list Qc) : forall l best besti i,
  skipn i w = l -> (besti < i)%nat -> (i <= length w)%nat -> nth besti w 0 = best ->
  (forall j, (j < i)%nat -> nth j w 0 <= best) ->
  (argmax_from best besti i l < length w)%nat /\
  forall j, (j < length w)%nat -> nth j w 0 <= nth (argmax_from best besti i l) w 0.
Proof.
  induction l as [|x t IH]; intros best besti i Hs Hb Hi Hn Hle; simpl.
  - assert (length w <= i)%nat.
    { destruct (Nat.le_gt_cases (length w) i) as [L|L]; [exact L|]. exfalso.
      assert (E : length (skipn i w) = (length w - i)%nat) by apply skipn_length. rewrite Hs in E. simpl in E. lia. }
    split; [lia|]. intros j Hj. rewrite Hn. apply Hle. lia.
  - destruct (skipn_cons_nth 0 i w x t Hs) as [Hx [Hs' Hlt]].
    destruct (Qclt_le_dec best x) as [L|L].
    + apply IH; [exact Hs'|lia|lia|exact Hx|]. intros j Hj.
      destruct (Nat.eq_dec j i) as [->|Hne]; [rewrite Hx; apply Qcle_refl|].
      apply Qcle_trans with best; [apply Hle; lia|apply Qclt_le_weak; exact L].
    + apply IH; [exact Hs'|lia|lia|exact Hn|]. intros j Hj.
      destruct (Nat.eq_dec j i) as [->|Hne]; [rewrite Hx; exact L|apply Hle; lia].
Qed.

Lemma argmax_spec (w : list Qc) : w <> [] ->
  (argmax w < length w)%nat /\ forall j, (j < length w)%nat -> nth j w 0 <= nth (argmax w) w 0.
Proof.
  destruct w as [|x t]; [congruence|]. intros _. unfold argmax.
  apply (argmax_from_spec (x :: t) t x 0%nat 1%nat); [reflexivity|lia|simpl; lia|reflexivity|].
  intros j Hj. assert (j = 0)%nat by lia. subst. apply Qcle_refl.
Qed.

Lemma add_at_length k e l : length (add_at k e l) = length l.
Proof. revert k. induction l as [|x l IH]; intros [|k]; simpl; try reflexivity. rewrite IH. reflexivity. Qed.
Lemma add_at_nth_same k e l : (k < length l)%nat -> nth k (add_at k e l) 0 = nth k l 0 + e.
Proof. revert k. induction l as [|x l IH]; intros [|k] H; simpl in *; try lia; [reflexivity|apply IH; lia]. Qed.
Lemma add_at_nth_other k e l i : i <> k -> nth i (add_at k e l) 0 = nth i l 0.
Proof.
  revert k i. induction l as [|x l IH]; intros [|k] [|i] H; simpl; try reflexivity; try congruence.
  apply IH. congruence.
Qed.
Lemma add_at_qsum k e l : (k < length l)%nat -> qsum (add_at k e l) = qsum l + e.
Proof.
  revert k. induction l as [|x l IH]; intros [|k] H; simpl in *; try lia; [ring|]. rewrite IH by lia. ring.
Qed.

Lemma qsum_all_zero l : (forall j, (j < length l)%nat -> nth j l 0 = 0) -> qsum l = 0.
Proof.
  induction l as [|x l IH]; intros H; [reflexivity|]. simpl.
  assert (Hx : x = 0) by (apply (H 0%nat); simpl; lia). rewrite Hx. rewrite IH; [ring|]. intros j Hj. apply (H (S j)). simpl. lia.
Qed.

Lemma adjusted_nonempty w w' : adjusted w = Ok w' -> w <> [].
Proof.
  intros H ->. unfold adjusted in H. simpl in H.
  destruct (Qclt_le_dec tol (Qcabs (1 - 0))) as [_|L]; [discriminate|]. vm_compute in L. apply L. reflexivity.
Qed.

(* _adjusted_weights: the vector handed to numpy.random.choice.  Only the FIRST maximal entry changes, by the
   residual 1 - sum; the result sums to exactly 1; the length is kept; and for non-negative input every
   entry that is exactly 0 stays 0 (the maximal entry is positive, because the sum is within 1e-3 of 1). *)
Theorem adjusted_support w w' : adjusted w = Ok w' ->
  length w' = length w /\
  qsum w' = 1 /\
  (forall i, i <> argmax w -> nth i w' 0 = nth i w 0) /\
  nth (argmax w) w' 0 = nth (argmax w) w 0 + (1 - qsum w) /\
  ((forall j, (j < length w)%nat -> 0 <= nth j w 0) -> forall i, nth i w 0 = 0 -> nth i w' 0 = 0).
Proof.
  intros H. assert (Hne := adjusted_nonempty w w' H). destruct (argmax_spec w Hne) as [Hlt Hmax].
  unfold adjusted in H. destruct (Qclt_le_dec tol (Qcabs (1 - qsum w))) as [_|Htol]; [discriminate|].
  destruct (Qc_eq_dec (1 - qsum w) 0) as [E|E]; inversion H; subst w'; clear H.
  - assert (Hs : qsum w = 1) by (rewrite <- (Qcplus_0_r (qsum w)), <- E; ring).
    split; [reflexivity|]. split; [exact Hs|]. split; [reflexivity|]. split; [rewrite E; ring|auto].
  - split; [apply add_at_length|]. split; [rewrite add_at_qsum by exact Hlt; ring|].
    split; [intros i Hi; apply add_at_nth_other; exact Hi|]. split; [apply add_at_nth_same; exact Hlt|].
    intros Hpos i Hz. destruct (Nat.eq_dec i (argmax w)) as [->|Hi]; [|rewrite add_at_nth_other by exact Hi; exact Hz].
    exfalso. (* the maximal entry is 0, so every entry is 0, the sum is 0 and |1 - 0| > 1e-3 *)
    assert (Hall : qsum w = 0).
    { apply qsum_all_zero. intros j Hj. apply Qcle_antisym; [pose proof (Hmax j Hj) as M; rewrite Hz in M; exact M|apply Hpos; exact Hj]. }
    rewrite Hall in Htol. vm_compute in Htol. apply Htol. reflexivity.
Qed.
