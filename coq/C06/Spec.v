(* C06 specification: the closed-form estimates, by NAMED assignment (a : variable -> state), never by
   table position.  No algorithm, no layout. *)
From Coq Require Import List Bool Arith PeanoNat QArith Qcanon.
From PV Require Import C06.Model.
Import ListNotations.
Open Scope Qc_scope.

Definition asg := var -> nat.

(* the row agrees with the assignment on the variables vs (order of vs is irrelevant) *)
Definition agreesb (cols : list var) (vs : list var) (a : asg) (r : list nat) : bool :=
  forallb (fun v => (val cols r v =? a v)%nat) vs.

(* count(pi): total weight (number, when unweighted) of the rows whose parents have configuration a *)
Definition cnt_p (cols : list var) (rows : list wrow) (ps : list var) (a : asg) : Qc :=
  sumQ (map snd (filter (fun rw => agreesb cols ps a (fst rw)) rows)).

(* count(x, pi): ... and whose child has state x *)
Definition cnt_xp (cols : list var) (rows : list wrow) (child : var) (x : nat) (ps : list var) (a : asg) : Qc :=
  sumQ (map snd (filter (fun rw => (val cols (fst rw) child =? x)%nat && agreesb cols ps a (fst rw)) rows)).

(* maximum likelihood: count(x,pi)/count(pi); uniform over the r declared child states when count(pi) = 0 *)
Definition spec_mle (r : nat) (nxp np : Qc) : Qc :=
  if Qc_eq_dec np 0 then 1 / Qc_of_nat r else nxp / np.

(* posterior mean under a Dirichlet prior: (count + alpha) / (total + sum of alpha).  numpy semantics of a zero
   total (nan) is [None], as in Model.qdiv *)
Definition spec_posterior (nxp np alpha alpha_total : Qc) : option Qc :=
  qdiv (nxp + alpha) (np + alpha_total).

(* a fitted column is a probability distribution: all entries finite, sum exactly 1 *)
Definition col_is_distribution (T : table (option Qc)) (j : nat) : Prop :=
  exists vs, column None T j = map Some vs /\ sumQ vs = 1.

(* what check_model asks of one CPD: right shape and every column a distribution *)
Definition cpd_valid (r q : nat) (T : table (option Qc)) : Prop :=
  shape_ok r q T = true /\ forall j, (j < q)%nat -> col_is_distribution T j.

(* the assignment is a valid state for each listed variable *)
Definition in_states (card : var -> nat) (vs : list var) (a : asg) : Prop :=
  forall v, In v vs -> (a v < card v)%nat.

(* value of a table in pgmpy's layout (parents ps in the listed order) at a named assignment *)
Definition named_get {A} (d : A) (card : var -> nat) (ps : list var) (T : table A) (x : nat) (a : asg) : A :=
  tget d T x (Ravel.ravel (map card ps) (map a ps)).

(* every row of the frame has a declared state of [child] *)
Definition child_in_range (card : var -> nat) (cols : list var) (rows : list wrow) (child : var) : Prop :=
  forall rw, In rw rows -> (val cols (fst rw) child < card child)%nat.

Definition nonneg_weights (rows : list wrow) : Prop := forall rw, In rw rows -> 0 <= snd rw.
