(* C06: the rational EM iteration of Model.v (e_step + m_step, pgmpy/estimators/EM.py) embedded into the
   reals is an INSTANCE of the abstract iteration of EMReal.v; hence one model iteration never decreases
   the observed-data log-likelihood ([em_model_ascent]).

   Instance:  observed rows = the data rows (multiplicity 1 each; the model's drop_duplicates + n_counts is
   the same thing by ProofsEM.sum_dedup);  completions of a row u = u ++ c for c in itertools.product of
   the latent states;  group = (CPD, column index j in that CPD's own parent order);  cell = child state k;
   usage n (cp,j) k r = 1 if row r has child state k and its parents ravel to column j, else 0;
   th (cp,j) k = Q2R of the table entry.  The complete-data probability is then the product of the CPD
   values (cprob_inst), the E-step weights are multiplicity * responsibility and the M-step table is
   expected count / expected total (mstep_is_update).

   Exact side conditions of [em_model_ascent] (all stated as hypotheses, nothing hidden):
     - the floor is INACTIVE: clamp <= every CPD value met on a (row, completion) pair.  pgmpy's
       max(value, 1e-10) is outside the theorem: with an active floor the E-step no longer uses a
       (sub-)distribution and ascent can fail in principle;
     - every (row, completion) is in range for every CPD's family; every CPD has distinct parents, a
       positive child cardinality and columns that are distributions; at least one completion exists.
   [em_step] (the list of new CPDs: variable, SORTED parents, the m_step table) is defined here, not in
   Model.v: pgmpy builds exactly these TabularCPDs from estimate_cpd(var, weighted=True).  pgmpy skips the
   M-step for CPDs whose family has no latent variable ("fixed_cpds", estimated once by MLE); for those the
   M-step would return the same MLE, so applying it to every CPD is the same iteration. *)
From Coq Require Import List Bool Arith PeanoNat ZArith QArith Qcanon Qreals Reals Lra Lia Permutation.
From PV Require Import Base.Ravel C06.Model C06.Spec C06.Proofs C06.ProofsEst C06.ProofsEM C06.EMReal.
Import ListNotations.
Local Close Scope Qc_scope.
Local Close Scope Q_scope.
Local Open Scope R_scope.

(* ------------------------------------------------------------------ Qc -> R is a field embedding *)
Definition QcR (q : Qc) : R := Q2R (this q).

Lemma QcR_Q2Qc q : QcR (Q2Qc q) = Q2R q.
Proof. unfold QcR, Q2Qc. cbn [this]. apply Qeq_eqR. apply Qred_correct. Qed.

Lemma QcR_plus a b : QcR (a + b)%Qc = QcR a + QcR b.
Proof. unfold Qcplus. rewrite QcR_Q2Qc. apply Q2R_plus. Qed.

Lemma QcR_mult a b : QcR (a * b)%Qc = QcR a * QcR b.
Proof. unfold Qcmult. rewrite QcR_Q2Qc. apply Q2R_mult. Qed.

Lemma QcR_0 : QcR 0%Qc = 0.
Proof. unfold QcR. cbn [this Q2Qc]. apply RMicromega.Q2R_0. Qed.

Lemma QcR_1 : QcR 1%Qc = 1.
Proof. unfold QcR. cbn [this Q2Qc]. apply RMicromega.Q2R_1. Qed.

Lemma QcR_eq0 a : QcR a = 0 -> a = 0%Qc.
Proof.
  intros H. apply Qc_is_canon. apply eqR_Qeq. fold (QcR a). rewrite H. symmetry. apply RMicromega.Q2R_0.
Qed.

Lemma QcR_inv a : a <> 0%Qc -> QcR (/ a)%Qc = / QcR a.
Proof.
  intros Ha. unfold Qcinv. rewrite QcR_Q2Qc. apply Q2R_inv.
  intros E. apply Ha. apply Qc_is_canon. exact E.
Qed.

Lemma QcR_div a b : b <> 0%Qc -> QcR (a / b)%Qc = QcR a / QcR b.
Proof. intros Hb. unfold Qcdiv. rewrite QcR_mult, QcR_inv by exact Hb. reflexivity. Qed.

Lemma QcR_le a b : (a <= b)%Qc -> QcR a <= QcR b.
Proof. intros H. apply Qle_Rle. exact H. Qed.

Lemma QcR_lt a b : (a < b)%Qc -> QcR a < QcR b.
Proof. intros H. apply Qlt_Rlt. exact H. Qed.

Lemma QcR_nonneg a : (0 <= a)%Qc -> 0 <= QcR a.
Proof. intros H. rewrite <- QcR_0. apply QcR_le. exact H. Qed.

Lemma QcR_pos a : (0 < a)%Qc -> 0 < QcR a.
Proof. intros H. rewrite <- QcR_0. apply QcR_lt. exact H. Qed.

Lemma QcR_sumQ {A} (f : A -> Qc) l : QcR (sumQ (map f l)) = rsum (fun a => QcR (f a)) l.
Proof.
  induction l as [|a l IH]; cbn [map sumQ fold_right rsum]; [apply QcR_0|].
  rewrite QcR_plus. fold (sumQ (map f l)). rewrite IH. reflexivity.
Qed.

(* ------------------------------------------------------------------ more sums / products over lists *)
Lemma rsum_map {A B} (f : B -> R) (h : A -> B) l : rsum f (map h l) = rsum (fun a => f (h a)) l.
Proof. induction l as [|a l IH]; cbn [map rsum]; [reflexivity|]. rewrite IH. reflexivity. Qed.

Lemma rprod_map {A B} (f : B -> R) (h : A -> B) l : rprod f (map h l) = rprod (fun a => f (h a)) l.
Proof. induction l as [|a l IH]; cbn [map rprod]; [reflexivity|]. rewrite IH. reflexivity. Qed.

Lemma rprod_app {A} (f : A -> R) l1 l2 : rprod f (l1 ++ l2) = rprod f l1 * rprod f l2.
Proof. induction l1 as [|a l1 IH]; cbn [app rprod]; [ring|]. rewrite IH. ring. Qed.

Lemma rprod_flat_map {A B} (f : B -> R) (h : A -> list B) l :
  rprod f (flat_map h l) = rprod (fun a => rprod f (h a)) l.
Proof. induction l as [|a l IH]; cbn [flat_map rprod]; [reflexivity|]. rewrite rprod_app, IH. reflexivity. Qed.

Lemma rprod_ones {A} (f : A -> R) l : (forall a, In a l -> f a = 1) -> rprod f l = 1.
Proof.
  induction l as [|a l IH]; intros H; cbn [rprod]; [reflexivity|].
  rewrite H by (left; reflexivity). rewrite IH; [ring|]. intros b Hb. apply H. right. exact Hb.
Qed.

(* a product of f k ^ [k0 = k] over a range containing k0 exactly picks f k0 *)
Lemma rprod_indicator (f : nat -> R) (k0 : nat) : forall r s, (s <= k0 < s + r)%nat ->
  rprod (fun k => f k ^ (if (k0 =? k)%nat then 1 else 0)) (seq s r) = f k0.
Proof.
  induction r as [|r IH]; intros s Hs; [lia|]. cbn [seq rprod].
  destruct (Nat.eqb_spec k0 s) as [->|Hne].
  - rewrite rprod_ones; [cbn [pow]; ring|]. intros k Hk. apply in_seq in Hk.
    destruct (Nat.eqb_spec s k); [lia|reflexivity].
  - rewrite IH by lia. cbn [pow]. ring.
Qed.

Lemma sumQ_flat_map {A B} (f : B -> Qc) (h : A -> list B) l :
  sumQ (map f (flat_map h l)) = sumQ (map (fun a => sumQ (map f (h a))) l).
Proof.
  induction l as [|a l IH]; cbn [flat_map map sumQ fold_right]; [reflexivity|].
  rewrite map_app, sumQ_app. fold (sumQ (map (fun a0 => sumQ (map f (h a0))) l)). rewrite IH. reflexivity.
Qed.

(* ------------------------------------------------------------------ the model's EM iteration, completed *)
(* product of the CPD values, no floor *)
Definition joint (card : var -> nat) (cpds : list cpd) (a : var -> nat) : Qc :=
  fold_right (fun c acc => (cpd_value card c a * acc)%Qc) 1%Qc cpds.

Definition unwrap (o : option Qc) : Qc := match o with Some v => v | None => 0%Qc end.

(* the TabularCPD returned by mle.estimate_cpd(var, weighted=True): evidence = sorted parents *)
Definition em_new_cpd (card : var -> nat) (cols : list var) (rows : list (list nat)) (lats : list var)
           (cpds : list cpd) (clamp : Qc) (cp : cpd) : cpd :=
  {| c_var := c_var cp; c_parents := sort_vars (c_parents cp);
     c_table := map (map unwrap) (m_step card cols rows lats cpds clamp (c_var cp) (c_parents cp)) |}.

Definition em_step (card : var -> nat) (cols : list var) (rows : list (list nat)) (lats : list var)
           (cpds : list cpd) (clamp : Qc) : list cpd :=
  map (em_new_cpd card cols rows lats cpds clamp) cpds.

(* exact rational likelihood of one observed row: the latent variables summed out *)
Definition row_lik (card : var -> nat) (cols lats : list var) (cpds : list cpd) (u : list nat) : Qc :=
  sumQ (map (fun c => joint card cpds (val (cols ++ lats) (u ++ c))) (completions (map card lats))).

(* observed-data log-likelihood of the data under a list of CPDs *)
Definition loglikR (card : var -> nat) (cols : list var) (rows : list (list nat)) (lats : list var)
           (cpds : list cpd) : R :=
  rsum (fun u => ln (QcR (row_lik card cols lats cpds u))) rows.

Lemma QcR_joint card cpds a : QcR (joint card cpds a) = rprod (fun cp => QcR (cpd_value card cp a)) cpds.
Proof.
  induction cpds as [|cp cpds IH]; cbn [joint fold_right rprod]; [apply QcR_1|].
  rewrite QcR_mult. fold (joint card cpds a). rewrite IH. reflexivity.
Qed.

Lemma joint_unclamped card cpds clamp a :
  (forall cp, In cp cpds -> (clamp <= cpd_value card cp a)%Qc) ->
  joint_clamped card cpds clamp a = joint card cpds a.
Proof.
  induction cpds as [|cp cpds IH]; intros H; cbn [joint_clamped joint fold_right]; [reflexivity|].
  fold (joint_clamped card cpds clamp a). fold (joint card cpds a).
  rewrite IH by (intros c Hc; apply H; right; exact Hc).
  unfold Qcmax. destruct (Qclt_le_dec (cpd_value card cp a) clamp) as [Hlt|_]; [|reflexivity].
  exfalso. apply (Qclt_not_le _ _ Hlt). apply H. left. reflexivity.
Qed.

(* ------------------------------------------------------------------ named configurations and columns *)
Lemma val_map_self (a : var -> nat) ps p : In p ps -> val ps (map a ps) p = a p.
Proof. intros Hp. unfold val. rewrite assoc_combine_map by exact Hp. reflexivity. Qed.

Lemma val_in_range card : forall ps idx, in_range (map card ps) idx ->
  forall p, In p ps -> (val ps idx p < card p)%nat.
Proof.
  induction ps as [|h ps IH]; intros idx Hr p Hp; [destruct Hp|].
  inversion Hr as [|c cs i is_ Hi Hr' E1 E2]; subst. unfold val. cbn [combine assoc].
  destruct (Nat.eqb_spec h p) as [->|Hne]; [exact Hi|].
  destruct Hp as [Hp|Hp]; [contradiction|]. apply (IH is_ Hr' p Hp).
Qed.

Lemma map_val_nodup : forall ps idx, NoDup ps -> length idx = length ps -> map (val ps idx) ps = idx.
Proof.
  induction ps as [|h ps IH]; intros idx Hnd Hlen.
  - destruct idx; [reflexivity|discriminate].
  - destruct idx as [|i idx]; [discriminate|]. inversion Hnd as [|? ? Hnin Hnd']; subst.
    cbn [map]. f_equal.
    + unfold val. cbn [combine assoc]. rewrite Nat.eqb_refl. reflexivity.
    + rewrite <- (IH idx Hnd') at 2 by (cbn [length] in Hlen; lia).
      apply map_ext_in. intros p Hp. unfold val. cbn [combine assoc].
      destruct (Nat.eqb_spec h p) as [->|_]; [contradiction|reflexivity].
Qed.

Lemma agreesb_true_iff cols vs a r : agreesb cols vs a r = true <-> map (val cols r) vs = map a vs.
Proof.
  unfold agreesb. induction vs as [|v vs IH]; cbn [forallb map]; [tauto|].
  rewrite andb_true_iff, Nat.eqb_eq, IH. split.
  - intros [H1 H2]. rewrite H1, H2. reflexivity.
  - intros H. inversion H. split; reflexivity.
Qed.

Lemma uniq_first_In (u : list nat) : forall l, In u (uniq_first l) -> In u l.
Proof.
  induction l as [|x l IH]; cbn [uniq_first]; intros H; [exact H|].
  destruct H as [->|H]; [left; reflexivity|]. right. apply IH. apply in_remove in H. apply H.
Qed.

Lemma nonempty_In {A} (l : list A) : l <> [] -> exists a, In a l.
Proof. destruct l as [|a l]; [intros H; contradiction|]. intros _. exists a. left. reflexivity. Qed.

Lemma QcR_of_nat n : QcR (Qc_of_nat n) = INR n.
Proof.
  induction n as [|n IH]; [rewrite Qc_of_nat_0; apply QcR_0|].
  rewrite Qc_of_nat_S, QcR_plus, IH, QcR_1, S_INR. reflexivity.
Qed.

Lemma Qc_nonneg_of_R a : 0 <= QcR a -> (0 <= a)%Qc.
Proof. intros H. apply Rle_Qle. change (QcR 0%Qc <= QcR a). rewrite QcR_0. exact H. Qed.

Lemma named_get_unwrap card ps (M : table (option Qc)) x a :
  named_get 0%Qc card ps (map (map unwrap) M) x a = unwrap (named_get None card ps M x a).
Proof.
  unfold named_get, tget. change (@nil Qc) with (map unwrap []). rewrite map_nth.
  change 0%Qc with (unwrap None). rewrite map_nth. reflexivity.
Qed.

(* ------------------------------------------------------------------ the instance *)
Section Inst.
  Variable card : var -> nat.
  Variables (cols : list var) (rows : list (list nat)) (lats : list var) (cpds : list cpd) (clamp : Qc).
  Let cl := cols ++ lats.
  Let lc := completions (map card lats).
  Let ex := e_step card cols rows lats cpds clamp.
  Let F := em_new_cpd card cols rows lats cpds clamp.

  Definition qof (cp : cpd) : nat := prod (map card (c_parents cp)).
  (* the column of cp's table addressed by a full row r *)
  Definition colidx (cp : cpd) (r : list nat) : nat :=
    ravel (map card (c_parents cp)) (map (val cl r) (c_parents cp)).

  Definition csI (u : list nat) : list (list nat) := map (app u) lc.
  Definition gsI : list (cpd * nat) := flat_map (fun cp => map (pair cp) (seq 0 (qof cp))) cpds.
  Definition ksI (g : cpd * nat) : list nat := seq 0 (card (c_var (fst g))).
  Definition nI (g : cpd * nat) (k : nat) (r : list nat) : nat :=
    if ((val cl r (c_var (fst g)) =? k) && (colidx (fst g) r =? snd g))%nat then 1%nat else 0%nat.
  (* current parameter: the entries of the current CPDs *)
  Definition thI (g : cpd * nat) (k : nat) : R := QcR (tget 0%Qc (c_table (fst g)) k (snd g)).
  (* the named parent configuration of column j of cp (cp's own parent order) *)
  Definition aj (cp : cpd) (j : nat) : var -> nat := val (c_parents cp) (unravel (map card (c_parents cp)) j).
  (* next parameter: the entries of the new CPDs, read at the same NAMED configuration *)
  Definition thN (g : cpd * nat) (k : nat) : R :=
    QcR (named_get 0%Qc card (sort_vars (c_parents (fst g))) (c_table (F (fst g))) k (aj (fst g) (snd g))).

  Lemma in_gsI cp j : In (cp, j) gsI <-> In cp cpds /\ (j < qof cp)%nat.
  Proof.
    unfold gsI. rewrite in_flat_map. split.
    - intros [cp' [Hcp H]]. apply in_map_iff in H. destruct H as [j' [E Hj]]. inversion E; subst.
      apply in_seq in Hj. split; [exact Hcp|lia].
    - intros [Hcp Hj]. exists cp. split; [exact Hcp|]. apply in_map. apply in_seq. lia.
  Qed.

  (* the complete-data probability of the abstract theory is the product of the CPD entries a row selects *)
  Lemma cprob_inst (th : cpd * nat -> nat -> R) r :
    (forall cp, In cp cpds -> (val cl r (c_var cp) < card (c_var cp))%nat /\ (colidx cp r < qof cp)%nat) ->
    cprob _ _ _ gsI ksI nI th r = rprod (fun cp => th (cp, colidx cp r) (val cl r (c_var cp))) cpds.
  Proof.
    intros H. unfold cprob, gsI. rewrite rprod_flat_map. apply rprod_ext. intros cp Hcp.
    destruct (H cp Hcp) as [Hx Hj]. rewrite rprod_map.
    transitivity (rprod (fun j => th (cp, j) (val cl r (c_var cp)) ^ (if (colidx cp r =? j)%nat then 1 else 0))
                        (seq 0 (qof cp))).
    - apply rprod_ext. intros j _. unfold ksI, nI. cbn [fst snd].
      destruct (Nat.eqb_spec (colidx cp r) j) as [E|NE].
      + rewrite (rprod_ext _ (fun k => th (cp, j) k ^ (if (val cl r (c_var cp) =? k)%nat then 1 else 0)))
          by (intros k _; rewrite andb_true_r; reflexivity).
        rewrite rprod_indicator by lia. cbn [pow]. ring.
      + rewrite rprod_ones; [reflexivity|]. intros k _. rewrite andb_false_r. reflexivity.
    - rewrite (rprod_indicator (fun j => th (cp, j) (val cl r (c_var cp)))) by lia. reflexivity.
  Qed.

  Hypothesis Hclamp : (0 < clamp)%Qc.
  Hypothesis Hlc : lc <> [].
  Hypothesis Hrange : forall u c cp, In u rows -> In c lc -> In cp cpds ->
    in_states card (c_var cp :: c_parents cp) (val cl (u ++ c)).
  Hypothesis Hfloor : forall u c cp, In u rows -> In c lc -> In cp cpds ->
    (clamp <= cpd_value card cp (val cl (u ++ c)))%Qc.
  Hypothesis Hnd : forall cp, In cp cpds -> NoDup (c_parents cp).
  Hypothesis Hcard : forall cp, In cp cpds -> (0 < card (c_var cp))%nat.
  Hypothesis Hdist : forall cp j, In cp cpds -> (j < qof cp)%nat ->
    (forall k, (k < card (c_var cp))%nat -> (0 <= tget 0 (c_table cp) k j)%Qc) /\
    sumQ (map (fun k => tget 0%Qc (c_table cp) k j) (seq 0 (card (c_var cp)))) = 1%Qc.

  Lemma par_states u c cp : In u rows -> In c lc -> In cp cpds -> in_states card (c_parents cp) (val cl (u ++ c)).
  Proof. intros Hu Hc Hcp p Hp. apply (Hrange u c cp Hu Hc Hcp). right. exact Hp. Qed.

  Lemma in_rng u c cp : In u rows -> In c lc -> In cp cpds ->
    (val cl (u ++ c) (c_var cp) < card (c_var cp))%nat /\ (colidx cp (u ++ c) < qof cp)%nat.
  Proof.
    intros Hu Hc Hcp. split; [apply (Hrange u c cp Hu Hc Hcp); left; reflexivity|].
    unfold colidx, qof. apply ravel_lt. apply in_states_in_range. apply par_states; assumption.
  Qed.

  Lemma aj_in_states cp j : (j < qof cp)%nat -> in_states card (c_parents cp) (aj cp j).
  Proof. intros Hj p Hp. unfold aj. apply val_in_range; [apply unravel_in_range; exact Hj|exact Hp]. Qed.

  Lemma aj_colidx cp r p : in_states card (c_parents cp) (val cl r) -> In p (c_parents cp) ->
    aj cp (colidx cp r) p = val cl r p.
  Proof.
    intros Hs Hp. unfold aj, colidx. rewrite unravel_ravel by (apply in_states_in_range; exact Hs).
    apply val_map_self. exact Hp.
  Qed.

  (* a row agrees with the named configuration of column j iff its parents ravel to j *)
  Lemma agrees_colidx cp j r : NoDup (c_parents cp) -> (j < qof cp)%nat ->
    in_states card (c_parents cp) (val cl r) ->
    agreesb cl (c_parents cp) (aj cp j) r = (colidx cp r =? j)%nat.
  Proof.
    intros Hn Hj Hs. destruct (Nat.eqb_spec (colidx cp r) j) as [E|NE].
    - apply agreesb_true_iff. apply map_ext_in. intros p Hp. rewrite <- E. symmetry. apply aj_colidx; assumption.
    - destruct (agreesb cl (c_parents cp) (aj cp j) r) eqn:Ea; [|reflexivity]. exfalso. apply NE.
      apply agreesb_true_iff in Ea. unfold colidx. rewrite Ea. unfold aj.
      rewrite map_val_nodup; [apply ravel_unravel; exact Hj|exact Hn|].
      rewrite unravel_length, map_length. reflexivity.
  Qed.

  (* ---- current parameter *)
  Lemma lik_pos u c : In u rows -> In c lc -> (0 < joint card cpds (val cl (u ++ c)))%Qc.
  Proof.
    intros Hu Hc. rewrite <- (joint_unclamped card cpds clamp) by (intros cp Hcp; apply Hfloor; assumption).
    apply joint_clamped_pos. exact Hclamp.
  Qed.

  Lemma cprob_thI u c : In u rows -> In c lc ->
    cprob _ _ _ gsI ksI nI thI (u ++ c) = QcR (joint card cpds (val cl (u ++ c))).
  Proof.
    intros Hu Hc. rewrite cprob_inst by (intros cp Hcp; apply in_rng; assumption).
    rewrite QcR_joint. reflexivity.
  Qed.

  Lemma marg_thI u : In u rows -> marg _ _ _ _ csI gsI ksI nI thI u = QcR (row_lik card cols lats cpds u).
  Proof.
    intros Hu. unfold marg, csI, row_lik. rewrite rsum_map, QcR_sumQ. apply rsum_ext. intros c Hc.
    apply cprob_thI; assumption.
  Qed.

  Lemma row_lik_posR u : In u rows -> 0 < QcR (row_lik card cols lats cpds u).
  Proof.
    intros Hu. unfold row_lik. rewrite QcR_sumQ. destruct (nonempty_In lc Hlc) as [c0 Hc0].
    apply (rsum_pos_intro _ _ c0).
    - intros c Hc. apply Rlt_le. apply QcR_pos. apply lik_pos; assumption.
    - exact Hc0.
    - apply QcR_pos. apply lik_pos; assumption.
  Qed.

  Lemma row_lik_nz u : In u rows -> row_lik card cols lats cpds u <> 0%Qc.
  Proof. intros Hu E. assert (H := row_lik_posR u Hu). rewrite E, QcR_0 in H. lra. Qed.

  Lemma sub_distr_thI : sub_distr _ _ gsI ksI thI.
  Proof.
    split.
    - intros [cp j] Hg k Hk. apply in_gsI in Hg. destruct Hg as [Hcp Hj]. unfold ksI in Hk. cbn [fst] in Hk.
      apply in_seq in Hk. unfold thI. cbn [fst snd]. apply QcR_nonneg. apply (Hdist cp j Hcp Hj). lia.
    - intros [cp j] Hg. apply in_gsI in Hg. destruct Hg as [Hcp Hj]. unfold ksI, thI. cbn [fst snd].
      rewrite <- (QcR_sumQ (fun k => tget 0%Qc (c_table cp) k j)). rewrite (proj2 (Hdist cp j Hcp Hj)), QcR_1.
      apply Rle_refl.
  Qed.

  Lemma observable_thI : observable _ _ _ _ rows csI gsI ksI nI thI.
  Proof. intros u Hu. rewrite marg_thI by exact Hu. apply row_lik_posR. exact Hu. Qed.

  (* ---- E-step: sums over the weighted frame are sums over the data rows of posterior-weighted terms *)
  Lemma e_step_sum (P : list nat -> bool) :
    sumQ (map (fun rw : wrow => if P (fst rw) then snd rw else 0%Qc) ex)
    = sumQ (map (fun u => sumQ (map (fun c => if P (u ++ c)
                                              then (joint card cpds (val cl (u ++ c)) / row_lik card cols lats cpds u)%Qc
                                              else 0%Qc) lc)) rows).
  Proof.
    unfold ex, e_step. rewrite sumQ_flat_map. cbv zeta. fold cl. fold lc.
    rewrite <- (sum_dedup (fun u => sumQ (map (fun c => if P (u ++ c)
               then (joint card cpds (val cl (u ++ c)) / row_lik card cols lats cpds u)%Qc else 0%Qc) lc)) rows).
    apply sumQ_map_ext. intros u Hu. apply uniq_first_In in Hu.
    rewrite map_map. cbn [fst snd]. rewrite <- sumQ_map_mul_l. apply sumQ_map_ext. intros c Hc.
    assert (Es : sumQ (map (fun c0 => joint_clamped card cpds clamp (val cl (u ++ c0))) lc)
                 = row_lik card cols lats cpds u).
    { unfold row_lik. fold cl. fold lc. apply sumQ_map_ext. intros c0 Hc0. apply joint_unclamped.
      intros cp Hcp. apply Hfloor; assumption. }
    rewrite Es. rewrite joint_unclamped by (intros cp Hcp; apply Hfloor; assumption).
    destruct (P (u ++ c)); unfold Qcdiv; ring.
  Qed.

  Lemma ex_rows rw : In rw ex -> exists u c, In u rows /\ In c lc /\ fst rw = u ++ c /\
    snd rw = (joint card cpds (val cl (u ++ c)) / row_lik card cols lats cpds u
              * Qc_of_nat (count_occ rows_dec rows u))%Qc.
  Proof.
    unfold ex, e_step. fold cl. fold lc. cbv zeta. intros H. apply in_flat_map in H.
    destruct H as [u [Hu H]]. apply uniq_first_In in Hu. apply in_map_iff in H. destruct H as [c [E Hc]].
    exists u, c. split; [exact Hu|]. split; [exact Hc|]. subst rw. cbn [fst snd]. split; [reflexivity|].
    rewrite joint_unclamped by (intros cp Hcp; apply Hfloor; assumption).
    f_equal. f_equal. unfold row_lik. fold cl. fold lc. apply sumQ_map_ext. intros c0 Hc0.
    apply joint_unclamped. intros cp Hcp. apply Hfloor; assumption.
  Qed.

  (* the weights of the expanded frame are multiplicity * responsibility, hence non-negative *)
  Lemma ex_weight_R rw : In rw ex -> exists u c, In u rows /\ In c lc /\ fst rw = u ++ c /\
    QcR (snd rw) = INR (count_occ rows_dec rows u) * resp _ _ _ _ csI gsI ksI nI thI u (u ++ c).
  Proof.
    intros H. destruct (ex_rows rw H) as [u [c [Hu [Hc [E1 E2]]]]]. exists u, c.
    split; [exact Hu|]. split; [exact Hc|]. split; [exact E1|].
    rewrite E2, QcR_mult, QcR_div, QcR_of_nat by (apply row_lik_nz; exact Hu).
    unfold resp. rewrite cprob_thI, marg_thI by assumption. ring.
  Qed.

  Lemma ex_nonneg : nonneg_weights ex.
  Proof.
    intros rw H. destruct (ex_weight_R rw H) as [u [c [Hu [Hc [_ E]]]]]. apply Qc_nonneg_of_R. rewrite E.
    apply Rmult_le_pos; [apply pos_INR|]. unfold resp. rewrite cprob_thI, marg_thI by assumption.
    apply Rlt_le. apply Rdiv_lt_0_compat; [apply QcR_pos; apply lik_pos; assumption|apply row_lik_posR; exact Hu].
  Qed.

  Lemma ex_child_in_range cp : In cp cpds -> child_in_range card cl ex (c_var cp).
  Proof.
    intros Hcp rw H. destruct (ex_rows rw H) as [u [c [Hu [Hc [E _]]]]]. rewrite E.
    apply (in_rng u c cp Hu Hc Hcp).
  Qed.

  (* expected counts: the weighted count of the M-step, embedded into R, is the abstract expected count *)
  Lemma cnt_is_ecount cp j k : In cp cpds -> (j < qof cp)%nat ->
    QcR (cnt_xp cl ex (c_var cp) k (c_parents cp) (aj cp j)) = ecount _ _ _ _ rows (fun _ => 1) csI gsI ksI nI thI (cp, j) k.
  Proof.
    intros Hcp Hj. unfold cnt_xp.
    rewrite sumQ_filter.
    assert (E := e_step_sum (fun r => (val cl r (c_var cp) =? k)%nat && agreesb cl (c_parents cp) (aj cp j) r)).
    cbv beta in E. etransitivity; [exact (f_equal QcR E)|]. clear E.
    rewrite QcR_sumQ. unfold ecount. apply rsum_ext. intros u Hu. rewrite Rmult_1_l.
    rewrite QcR_sumQ. unfold csI. rewrite rsum_map. apply rsum_ext. intros c Hc.
    rewrite agrees_colidx by (try apply Hnd; try apply par_states; assumption).
    unfold nI. cbn [fst snd]. unfold resp. rewrite cprob_thI, marg_thI by assumption.
    destruct ((val cl (u ++ c) (c_var cp) =? k)%nat && (colidx cp (u ++ c) =? j)%nat).
    - rewrite QcR_div by (apply row_lik_nz; exact Hu). cbn [INR]. ring.
    - rewrite QcR_0. cbn [INR]. ring.
  Qed.

  Lemma cntp_is_gtotal cp j : In cp cpds -> (j < qof cp)%nat ->
    QcR (cnt_p cl ex (c_parents cp) (aj cp j)) = gtotal _ _ _ _ rows (fun _ => 1) csI gsI ksI nI thI (cp, j).
  Proof.
    intros Hcp Hj. rewrite <- (cnt_marginal card cl ex (c_var cp)) by (apply ex_child_in_range; exact Hcp).
    rewrite QcR_sumQ. unfold gtotal, ksI. cbn [fst]. apply rsum_ext. intros k _. apply cnt_is_ecount; assumption.
  Qed.

  Lemma thN_unfold cp j k :
    thN (cp, j) k = QcR (unwrap (named_get None card (sort_vars (c_parents cp))
                                   (mle_cpd card cl ex (c_var cp) (c_parents cp)) k (aj cp j))).
  Proof. unfold thN, F, em_new_cpd. cbn [fst snd c_table]. rewrite named_get_unwrap. reflexivity. Qed.

  (* M-step: the new tables are normalised expected counts (uniform where the expected total is 0) *)
  Lemma mstep_is_update : em_update _ _ _ _ rows (fun _ => 1) csI gsI ksI nI thI thN.
  Proof.
    intros [cp j] Hg. apply in_gsI in Hg. destruct Hg as [Hcp Hj].
    assert (Ha := aj_in_states cp j Hj).
    split.
    - intros Ht k Hk. unfold ksI in Hk. cbn [fst] in Hk. apply in_seq in Hk.
      assert (Hnz : cnt_p cl ex (c_parents cp) (aj cp j) <> 0%Qc).
      { intros E. rewrite <- cntp_is_gtotal, E, QcR_0 in Ht by assumption. lra. }
      rewrite thN_unfold.
      rewrite (mle_closed_form card cl ex (c_var cp) (c_parents cp) k (aj cp j))
        by (try apply ex_child_in_range; try assumption; lia).
      cbn [unwrap]. rewrite QcR_div by exact Hnz.
      rewrite cnt_is_ecount, cntp_is_gtotal by assumption. reflexivity.
    - intros Ht k Hk. unfold ksI in Hk. cbn [fst] in Hk. apply in_seq in Hk.
      assert (Hz : cnt_p cl ex (c_parents cp) (aj cp j) = 0%Qc).
      { apply QcR_eq0. rewrite cntp_is_gtotal by assumption. exact Ht. }
      rewrite thN_unfold.
      rewrite (mle_uniform_unseen card cl ex (c_var cp) (c_parents cp) k (aj cp j)); [| lia | exact Ha |].
      + cbn [unwrap]. rewrite QcR_div by (apply Qc_of_nat_nonzero; apply Hcard; exact Hcp).
        rewrite QcR_1, QcR_of_nat. apply Rlt_le. apply Rdiv_lt_0_compat; [lra|]. apply lt_0_INR. apply Hcard. exact Hcp.
      + intros rw Hrw Hag. unfold cnt_p in Hz.
        apply (sumQ_zero_all (map snd (filter (fun rw0 : wrow => agreesb cl (c_parents cp) (aj cp j) (fst rw0)) ex))).
        * intros w Hw. apply in_map_iff in Hw. destruct Hw as [rw' [<- Hrw']]. apply filter_In in Hrw'.
          apply ex_nonneg. apply Hrw'.
        * exact Hz.
        * apply in_map. apply filter_In. split; assumption.
  Qed.

  (* ---- next parameter: read through the new CPDs *)
  Lemma thN_value u c cp : In u rows -> In c lc -> In cp cpds ->
    thN (cp, colidx cp (u ++ c)) (val cl (u ++ c) (c_var cp)) = QcR (cpd_value card (F cp) (val cl (u ++ c))).
  Proof.
    intros Hu Hc Hcp. unfold thN, cpd_value, named_get. cbn [fst snd]. unfold F at 1 3 4 5. cbn [em_new_cpd c_var c_parents].
    f_equal. f_equal. f_equal. apply map_ext_in. intros p Hp.
    apply aj_colidx; [apply par_states; assumption|].
    apply (Permutation_in p (sort_vars_perm (c_parents cp))). exact Hp.
  Qed.

  Lemma marg_thN u : In u rows ->
    marg _ _ _ _ csI gsI ksI nI thN u = QcR (row_lik card cols lats (em_step card cols rows lats cpds clamp) u).
  Proof.
    intros Hu. unfold marg, csI, row_lik. rewrite rsum_map, QcR_sumQ. fold cl. fold lc. apply rsum_ext. intros c Hc.
    rewrite cprob_inst by (intros cp Hcp; apply in_rng; assumption).
    rewrite QcR_joint. unfold em_step. fold F. rewrite rprod_map. apply rprod_ext. intros cp Hcp.
    apply thN_value; assumption.
  Qed.

  (* ---- one model iteration never decreases the observed-data log-likelihood *)
  Theorem em_model_ascent :
    (forall u, In u rows -> 0 < QcR (row_lik card cols lats (em_step card cols rows lats cpds clamp) u)) /\
    loglikR card cols rows lats cpds <= loglikR card cols rows lats (em_step card cols rows lats cpds clamp).
  Proof.
    destruct (em_ascent _ _ _ _ rows (fun _ => 1) csI gsI ksI nI thI thN (fun _ _ => Rlt_0_1)
                        sub_distr_thI observable_thI mstep_is_update) as [Hobs Hle].
    split.
    - intros u Hu. rewrite <- marg_thN by exact Hu. apply Hobs. exact Hu.
    - unfold loglik in Hle. unfold loglikR.
      rewrite (rsum_ext _ (fun u => 1 * ln (marg _ _ _ _ csI gsI ksI nI thI u)) rows)
        by (intros u Hu; rewrite marg_thI by exact Hu; ring).
      rewrite (rsum_ext (fun u => ln (QcR (row_lik card cols lats (em_step card cols rows lats cpds clamp) u)))
                        (fun u => 1 * ln (marg _ _ _ _ csI gsI ksI nI thN u)) rows)
        by (intros u Hu; rewrite marg_thN by exact Hu; ring).
      exact Hle.
  Qed.
End Inst.

(* ------------------------------------------------------------------ the range hypothesis from the model's guards *)
(* [row_ok] for every data row (pgmpy: "Data contains unexpected states" otherwise) and every CPD's family
   inside columns ++ latents imply that every (row, completion) is in range for every family *)
Lemma assoc_combine_some (v : nat) : forall (cols : list var) (u : list nat) s,
  assoc v (combine cols u) = Some s -> In v cols.
Proof.
  induction cols as [|h cols IH]; intros u s H; [discriminate|].
  destruct u as [|x u]; [discriminate|]. cbn [combine assoc] in H.
  destruct (Nat.eqb_spec h v) as [->|_]; [left; reflexivity|]. right. apply (IH u s H).
Qed.

Lemma assoc_combine_none (v : nat) : forall (cols : list var) (u : list nat),
  length u = length cols -> assoc v (combine cols u) = None -> ~ In v cols.
Proof.
  induction cols as [|h cols IH]; intros u Hl H; [intros []|].
  destruct u as [|x u]; [discriminate|]. cbn [combine assoc] in H.
  destruct (Nat.eqb_spec h v) as [->|Hne]; [discriminate|].
  intros [E|Hin]; [contradiction|]. apply (IH u); [cbn [length] in Hl; lia|exact H|exact Hin].
Qed.

Lemma assoc_app (v : nat) l1 l2 :
  assoc v (l1 ++ l2) = match assoc v l1 with Some s => Some s | None => assoc v l2 end.
Proof.
  induction l1 as [|[k x] l1 IH]; cbn [app assoc]; [reflexivity|].
  destruct (k =? v)%nat; [reflexivity|exact IH].
Qed.

Lemma combine_app_eq {A B} : forall (l1 : list A) (r1 : list B) l2 r2, length r1 = length l1 ->
  combine (l1 ++ l2) (r1 ++ r2) = combine l1 r1 ++ combine l2 r2.
Proof.
  induction l1 as [|a l1 IH]; intros r1 l2 r2 Hl; destruct r1 as [|b r1]; try discriminate; [reflexivity|].
  cbn [app combine]. f_equal. apply IH. cbn [length] in Hl. lia.
Qed.

Lemma completions_in_range lcards c : In c (completions lcards) -> in_range lcards c.
Proof.
  unfold completions. intros H. apply in_map_iff in H. destruct H as [i [<- Hi]]. apply in_seq in Hi.
  apply unravel_in_range. lia.
Qed.

Lemma frame_in_states card cols lats u c fam :
  row_ok card cols u = true -> In c (completions (map card lats)) ->
  fam_in_cols (cols ++ lats) fam = true ->
  in_states card fam (val (cols ++ lats) (u ++ c)).
Proof.
  intros Hrow Hc Hfam v Hv.
  unfold row_ok in Hrow. apply andb_true_iff in Hrow. destruct Hrow as [Hlen Hst]. apply Nat.eqb_eq in Hlen.
  unfold fam_in_cols in Hfam. rewrite forallb_forall in Hfam. specialize (Hfam v Hv).
  unfold memv in Hfam. apply existsb_exists in Hfam. destruct Hfam as [v' [Hin E]]. apply Nat.eqb_eq in E. subst v'.
  unfold val at 1. rewrite combine_app_eq by exact Hlen. rewrite assoc_app.
  destruct (assoc v (combine cols u)) as [s|] eqn:Ea.
  - assert (Hvc := assoc_combine_some v cols u s Ea). rewrite forallb_forall in Hst.
    specialize (Hst v Hvc). apply Nat.ltb_lt in Hst. unfold val in Hst. rewrite Ea in Hst. exact Hst.
  - assert (Hnc := assoc_combine_none v cols u Hlen Ea). apply in_app_or in Hin.
    destruct Hin as [Hin|Hin]; [contradiction|].
    apply (val_in_range card lats c (completions_in_range _ c Hc) v Hin).
Qed.

(* [em_model_ascent] with the range hypothesis replaced by the model's own input guards *)
Theorem em_model_ascent_frame card cols rows lats cpds clamp :
  (0 < clamp)%Qc ->
  completions (map card lats) <> [] ->
  (forall u, In u rows -> row_ok card cols u = true) ->
  (forall cp, In cp cpds -> fam_in_cols (cols ++ lats) (c_var cp :: c_parents cp) = true) ->
  (forall u c cp, In u rows -> In c (completions (map card lats)) -> In cp cpds ->
     (clamp <= cpd_value card cp (val (cols ++ lats) (u ++ c)))%Qc) ->
  (forall cp, In cp cpds -> NoDup (c_parents cp)) ->
  (forall cp, In cp cpds -> (0 < card (c_var cp))%nat) ->
  (forall cp j, In cp cpds -> (j < prod (map card (c_parents cp)))%nat ->
     (forall k, (k < card (c_var cp))%nat -> (0 <= tget 0 (c_table cp) k j)%Qc) /\
     sumQ (map (fun k => tget 0%Qc (c_table cp) k j) (seq 0 (card (c_var cp)))) = 1%Qc) ->
  (forall u, In u rows -> 0 < QcR (row_lik card cols lats (em_step card cols rows lats cpds clamp) u)) /\
  loglikR card cols rows lats cpds <= loglikR card cols rows lats (em_step card cols rows lats cpds clamp).
Proof.
  intros Hclamp Hlc Hrows Hfam Hfloor Hnd Hcard Hdist.
  apply em_model_ascent; try assumption.
  intros u c cp Hu Hc Hcp. apply frame_in_states; [apply Hrows; exact Hu|exact Hc|apply Hfam; exact Hcp].
Qed.

(* ------------------------------------------------------------------ non-vacuity: a concrete model instance *)
(* observed A (variable 0), latent L (variable 1), L -> A, both binary; rows A = 0, 0, 1;
   P(L) = (1/4, 3/4), P(A | L) = ((3/4, 1/4), (1/4, 3/4)); floor 1e-10 (inactive: all entries >= 1/4) *)
Definition exm_card (_ : var) : nat := 2%nat.
Definition exm_cpds : list cpd :=
  [ {| c_var := 1%nat; c_parents := []; c_table := [[Q2Qc (1#4)]; [Q2Qc (3#4)]] |};
    {| c_var := 0%nat; c_parents := [1%nat];
       c_table := [[Q2Qc (3#4); Q2Qc (1#4)]; [Q2Qc (1#4); Q2Qc (3#4)]] |} ].
Definition exm_rows : list (list nat) := [[0]; [0]; [1]]%nat.
Definition exm_clamp : Qc := Q2Qc (1 # 10000000000).

(* one iteration on it: P(L) becomes (11/30, 19/30), P(A | L) becomes ((10/11, 10/19), (1/11, 9/19)); the
   likelihoods of the three rows go from (3/8, 3/8, 5/8) to (2/3, 2/3, 1/3): product 45/512 -> 4/27 *)
Example exm_step_value :
  map (fun cp => (c_var cp, c_parents cp, map (map this) (c_table cp)))
      (em_step exm_card [0%nat] exm_rows [1%nat] exm_cpds exm_clamp)
  = [(1%nat, [], [[11 # 30]; [19 # 30]]); (0%nat, [1%nat], [[10 # 11; 10 # 19]; [1 # 11; 9 # 19]])]%Q
  /\ map (fun u => this (row_lik exm_card [0%nat] [1%nat] exm_cpds u)) exm_rows = [3 # 8; 3 # 8; 5 # 8]%Q
  /\ map (fun u => this (row_lik exm_card [0%nat] [1%nat]
                           (em_step exm_card [0%nat] exm_rows [1%nat] exm_cpds exm_clamp) u)) exm_rows
     = [2 # 3; 2 # 3; 1 # 3]%Q.
Proof. repeat split; vm_compute; reflexivity. Qed.

(* every hypothesis of [em_model_ascent_frame] holds for it, so the theorem applies *)
Example exm_ascent :
  loglikR exm_card [0%nat] exm_rows [1%nat] exm_cpds
  <= loglikR exm_card [0%nat] exm_rows [1%nat] (em_step exm_card [0%nat] exm_rows [1%nat] exm_cpds exm_clamp).
Proof.
  apply (em_model_ascent_frame exm_card [0%nat] exm_rows [1%nat] exm_cpds exm_clamp).
  - reflexivity.
  - vm_compute. discriminate.
  - intros u Hu. cbn [exm_rows In] in Hu. destruct Hu as [<-|[<-|[<-|[]]]]; reflexivity.
  - intros cp Hcp. cbn [exm_cpds In] in Hcp. destruct Hcp as [<-|[<-|[]]]; reflexivity.
  - intros u c cp Hu Hc Hcp. cbn [exm_rows In] in Hu.
    change (completions (map exm_card [1%nat])) with [[0%nat]; [1%nat]] in Hc. cbn [In] in Hc.
    cbn [exm_cpds In] in Hcp.
    destruct Hu as [<-|[<-|[<-|[]]]]; destruct Hc as [<-|[<-|[]]]; destruct Hcp as [<-|[<-|[]]];
      vm_compute; discriminate.
  - intros cp Hcp. cbn [exm_cpds In] in Hcp. destruct Hcp as [<-|[<-|[]]]; cbn [c_parents].
    + constructor.
    + constructor; [intros []|constructor].
  - intros cp _. unfold exm_card. lia.
  - intros cp j Hcp Hj. cbn [exm_cpds In] in Hcp. destruct Hcp as [<-|[<-|[]]]; simpl in Hj; cbn [c_var c_table exm_card].
    + destruct j as [|j]; [|lia]. split; [|apply Qc_is_canon; reflexivity].
      intros k Hk. destruct k as [|[|k]]; [vm_compute; discriminate|vm_compute; discriminate|unfold exm_card in Hk; lia].
    + destruct j as [|[|j]]; [| |lia]; (split; [|apply Qc_is_canon; reflexivity]);
        intros k Hk; (destruct k as [|[|k]]; [vm_compute; discriminate|vm_compute; discriminate|unfold exm_card in Hk; lia]).
Qed.
