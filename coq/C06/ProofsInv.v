(* C06: invariance of the fitted tables (rows, columns, parent order), node coverage, D4 witness *)
From Coq Require Import List Bool Arith PeanoNat ZArith QArith Qcanon Lia Permutation.
From PV Require Import Base.Ravel C06.Model C06.Spec C06.Proofs C06.ProofsEst.
Import ListNotations.
Open Scope Qc_scope.

Lemma estimators_ext card cols rows cols' rows' :
  (forall vs ss, wcount cols rows vs ss = wcount cols' rows' vs ss) ->
  (forall child gp, mle_cpd card cols rows child gp = mle_cpd card cols' rows' child gp) /\
  (forall child gp pr, bayes_cpd card cols rows child gp pr = bayes_cpd card cols' rows' child gp pr) /\
  (forall gp prev n, fit_update_cpd card cols rows gp prev n = fit_update_cpd card cols' rows' gp prev n).
Proof.
  intros H.
  assert (Hb : forall child gp pr, bayes_cpd card cols rows child gp pr = bayes_cpd card cols' rows' child gp pr).
  { intros. unfold bayes_cpd. rewrite (state_counts_ext card cols rows cols' rows' _ _ H). reflexivity. }
  repeat split.
  - intros. unfold mle_cpd. rewrite (state_counts_ext card cols rows cols' rows' _ _ H). reflexivity.
  - exact Hb.
  - intros. unfold fit_update_cpd. apply Hb.
Qed.

Lemma row_perm_invariant card cols rows rows' : Permutation rows rows' ->
  (forall child gp, mle_cpd card cols rows child gp = mle_cpd card cols rows' child gp) /\
  (forall child gp pr, bayes_cpd card cols rows child gp pr = bayes_cpd card cols rows' child gp pr) /\
  (forall gp prev n, fit_update_cpd card cols rows gp prev n = fit_update_cpd card cols rows' gp prev n).
Proof. intros H. apply estimators_ext. intros. apply wcount_row_perm. exact H. Qed.

Lemma col_perm_invariant card cols cols' rows rows' :
  NoDup cols -> Forall2 (same_row_upto_columns cols cols') rows rows' ->
  (forall child gp, mle_cpd card cols rows child gp = mle_cpd card cols' rows' child gp) /\
  (forall child gp pr, bayes_cpd card cols rows child gp pr = bayes_cpd card cols' rows' child gp pr) /\
  (forall gp prev n, fit_update_cpd card cols rows gp prev n = fit_update_cpd card cols' rows' gp prev n).
Proof. intros Hnd H. apply estimators_ext. intros. apply wcount_col_perm; assumption. Qed.

Lemma parent_order_invariant card cols rows gp gp' : Permutation gp gp' ->
  (forall child, mle_cpd card cols rows child gp = mle_cpd card cols rows child gp') /\
  (forall child pr, bayes_cpd card cols rows child gp pr = bayes_cpd card cols rows child gp' pr) /\
  (forall prev n, fit_update_cpd card cols rows gp prev n = fit_update_cpd card cols rows gp' prev n).
Proof.
  intros H. pose proof (sort_vars_perm_eq _ _ H) as E.
  assert (Hb : forall child pr, bayes_cpd card cols rows child gp pr = bayes_cpd card cols rows child gp' pr)
    by (intros; unfold bayes_cpd; rewrite E; reflexivity).
  repeat split.
  - intros. unfold mle_cpd. rewrite E. reflexivity.
  - exact Hb.
  - intros. unfold fit_update_cpd. apply Hb.
Qed.

(* ------------------------------------------------------------------ every node is estimated *)
Lemma memv_In v l : memv v l = true <-> In v l.
Proof.
  unfold memv. rewrite existsb_exists. split.
  - intros [x [Hx E]]. apply Nat.eqb_eq in E. subst. exact Hx.
  - intros H. exists v. split; [exact H|apply Nat.eqb_refl].
Qed.

Lemma add_nodes_incl vs : forall acc v, (In v acc \/ In v vs) <-> In v (add_nodes acc vs).
Proof.
  induction vs as [|x vs IH]; intros acc v; simpl.
  - tauto.
  - rewrite <- IH. destruct (memv x acc) eqn:E.
    + apply memv_In in E. split; [intros [H|[->|H]]; auto|tauto].
    + rewrite in_app_iff. simpl. tauto.
Qed.

Lemma every_node_estimated b nodes edges v : In v nodes -> In v (estimated_nodes b nodes edges).
Proof.
  intros H. unfold estimated_nodes. destruct b; [|exact H]. apply add_nodes_incl. right. exact H.
Qed.

Lemma estimated_nodes_no_extra b nodes edges v :
  (forall e, In e edges -> In (fst e) nodes /\ In (snd e) nodes) ->
  In v (estimated_nodes b nodes edges) -> In v nodes.
Proof.
  intros Hw H. unfold estimated_nodes in H. destruct b; [|exact H].
  apply add_nodes_incl in H. destruct H as [H|H]; [|exact H].
  unfold edge_nodes in H. apply add_nodes_incl in H. destruct H as [[]|H].
  apply in_flat_map in H. destruct H as [e [He Hv]]. destruct (Hw e He) as [H1 H2].
  simpl in Hv. destruct Hv as [<-|[<-|[]]]; assumption.
Qed.
