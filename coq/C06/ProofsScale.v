(* C06: weighted MLE does not depend on the scale of the weights *)
From Coq Require Import List Bool Arith PeanoNat ZArith QArith Qcanon Lia.
From PV Require Import Base.Ravel C06.Model C06.Spec C06.Proofs C06.ProofsEst.
Import ListNotations.
Open Scope Qc_scope.

Definition scale_rows (c : Qc) (rows : list wrow) : list wrow := map (fun rw => (fst rw, c * snd rw)) rows.

Lemma wcount_scale c cols rows vs ss : wcount cols (scale_rows c rows) vs ss = c * wcount cols rows vs ss.
Proof.
  unfold wcount, scale_rows. induction rows as [|rw rows IH]; cbn [map filter fst]; [simpl; ring|].
  destruct (row_matches cols vs ss (fst rw)); cbn [map snd sumQ fold_right]; [|exact IH].
  fold (sumQ (map snd (filter (fun rw0 => row_matches cols vs ss (fst rw0)) (map (fun rw0 => (fst rw0, c * snd rw0)) rows)))).
  fold (sumQ (map snd (filter (fun rw0 => row_matches cols vs ss (fst rw0)) rows))).
  rewrite IH. ring.
Qed.

Lemma tbuild_ext_in {A} r q (f g : nat -> nat -> A) :
  (forall x j, (x < r)%nat -> (j < q)%nat -> f x j = g x j) -> tbuild r q f = tbuild r q g.
Proof.
  intros H. unfold tbuild. apply map_ext_in. intros x Hx. apply in_seq in Hx.
  apply map_ext_in. intros j Hj. apply in_seq in Hj. apply H; lia.
Qed.

Lemma Qc_eqb_scale c y : c <> 0 -> Qc_eqb (c * y) 0 = Qc_eqb y 0.
Proof.
  intros Hc. unfold Qc_eqb. destruct (Qc_eq_dec (c * y) 0) as [E|E], (Qc_eq_dec y 0) as [E'|E']; try reflexivity.
  - apply Qcmult_integral in E. destruct E; contradiction.
  - exfalso. apply E. rewrite E'. ring.
Qed.

Lemma qdiv_scale c a s : c <> 0 -> qdiv (c * a) (c * s) = qdiv a s.
Proof.
  intros Hc. unfold qdiv. destruct (Qc_eq_dec (c * s) 0) as [E|E], (Qc_eq_dec s 0) as [E'|E']; try reflexivity.
  - apply Qcmult_integral in E. destruct E; contradiction.
  - exfalso. apply E. rewrite E'. ring.
  - f_equal. field. split; assumption.
Qed.

Lemma forallb_zero_map {A} (g h : A -> Qc) l :
  (forall x, Qc_eqb (g x) 0 = Qc_eqb (h x) 0) ->
  forallb (fun c => Qc_eqb c 0) (map g l) = forallb (fun c => Qc_eqb c 0) (map h l).
Proof. intros H. induction l as [|a l IH]; simpl; [reflexivity|]. rewrite H, IH. reflexivity. Qed.

Lemma mle_scale_invariant card cols rows child gp c : c <> 0 ->
  mle_cpd card cols (scale_rows c rows) child gp = mle_cpd card cols rows child gp.
Proof.
  intros Hc. unfold mle_cpd.
  set (ps := sort_vars gp). set (r := card child). set (q := prod (map card ps)).
  set (f := fun x j => wcount cols rows (child :: ps) (x :: unravel (map card ps) j)).
  assert (EC : state_counts card cols rows child ps = tbuild r q f) by reflexivity.
  assert (EC' : state_counts card cols (scale_rows c rows) child ps = tbuild r q (fun x j => c * f x j)).
  { unfold state_counts. apply tbuild_ext. intros x j. apply wcount_scale. }
  rewrite EC, EC'. clear EC EC'.
  assert (Hz : forall j, (j < q)%nat -> col_all_zero (tbuild r q (fun x j => c * f x j)) j = col_all_zero (tbuild r q f) j).
  { intros j Hj. unfold col_all_zero. rewrite !column_tbuild by exact Hj.
    apply forallb_zero_map. intros x. apply Qc_eqb_scale. exact Hc. }
  unfold normalize, fill_uniform. apply tbuild_ext_in. intros x j Hx Hj.
  rewrite !tget_tbuild by assumption. unfold colsum. rewrite !column_tbuild by exact Hj.
  rewrite (Hz j Hj). destruct (col_all_zero (tbuild r q f) j) eqn:E.
  - reflexivity.
  - rewrite (sumQ_map_ext (fun x0 => tget 0 (tbuild r q (fun x1 j0 => c * f x1 j0)) x0 j) (fun x0 => c * f x0 j)).
    2:{ intros x' Hx'. apply in_seq in Hx'. rewrite tget_tbuild by (try exact Hj; lia). reflexivity. }
    rewrite (sumQ_map_ext (fun x0 => tget 0 (tbuild r q f) x0 j) (fun x0 => f x0 j)).
    2:{ intros x' Hx'. apply in_seq in Hx'. rewrite tget_tbuild by (try exact Hj; lia). reflexivity. }
    rewrite sumQ_map_mul_l. apply qdiv_scale. exact Hc.
Qed.
