(* C06 property theorems: "Parameter learning returns the closed-form estimates".
   Only statements, each closed by [exact] of a lemma proved in Proofs*.v, Print Assumptions underneath.
   All theorems are unbounded: any data set (list of weighted rows), any cardinalities, any parent list.
   Conventions: [a : asg] is a NAMED assignment variable -> state; [named_get d card ps T x a] reads a table
   laid out for the parent order ps at child state x and the parents' states under a. *)
From Coq Require Import List Bool Arith PeanoNat ZArith QArith Qcanon Permutation Reals.
From PV Require Import Base.Ravel C06.Model C06.Spec C06.Proofs C06.ProofsEst C06.ProofsEM C06.ProofsInv.
From PV Require Import C06.EMReal C06.EMInst.
From PV Require Import C06.ProofsScale.
Import ListNotations.
Open Scope Qc_scope.

(* ---- counts ------------------------------------------------------------------------------------ *)
(* cell (x, pi) of state_counts = total weight of the rows with exactly that named configuration
   (so 0 for a declared-but-unseen state or an unseen parent configuration) *)
Theorem C06_counts : forall card cols rows child ps x a,
  (x < card child)%nat -> in_states card ps a ->
  named_get 0 card ps (state_counts card cols rows child ps) x a = cnt_xp cols rows child x ps a.
Proof. exact counts_cell. Qed.
Print Assumptions C06_counts.

(* ... which is the NUMBER of such rows for an unweighted frame *)
Theorem C06_counts_unweighted : forall cols rows child x ps a,
  cnt_xp cols (unweighted rows) child x ps a =
  Qc_of_nat (length (filter (fun r => (val cols r child =? x)%nat && agreesb cols ps a r) rows)).
Proof. exact cnt_xp_unweighted. Qed.
Print Assumptions C06_counts_unweighted.

(* ---- maximum likelihood ------------------------------------------------------------------------ *)
(* gp = the node's parents in the graph, in ANY order *)
Theorem C06_mle_closed_form : forall card cols rows child gp x a,
  child_in_range card cols rows child -> (x < card child)%nat -> in_states card gp a ->
  cnt_p cols rows gp a <> 0 ->
  named_get None card (sort_vars gp) (mle_cpd card cols rows child gp) x a
  = Some (cnt_xp cols rows child x gp a / cnt_p cols rows gp a).
Proof. exact mle_closed_form. Qed.
Print Assumptions C06_mle_closed_form.

(* unseen parent configuration (no row of non-zero weight has it): uniform over the declared child states *)
Theorem C06_mle_uniform_unseen : forall card cols rows child gp x a,
  (x < card child)%nat -> in_states card gp a ->
  (forall rw, In rw rows -> agreesb cols gp a (fst rw) = true -> snd rw = 0) ->
  named_get None card (sort_vars gp) (mle_cpd card cols rows child gp) x a = Some (1 / Qc_of_nat (card child)).
Proof. exact mle_uniform_unseen. Qed.
Print Assumptions C06_mle_uniform_unseen.

(* ---- Bayesian estimator: (count + alpha) / (total + sum alpha), numpy's nan ([None]) iff the total is 0 ---- *)
Theorem C06_bayes_closed_form_k2 : forall card cols rows child gp x a,
  child_in_range card cols rows child -> (x < card child)%nat -> in_states card gp a ->
  exists T, bayes_cpd card cols rows child gp K2 = Some T /\
    named_get None card (sort_vars gp) T x a
    = spec_posterior (cnt_xp cols rows child x gp a) (cnt_p cols rows gp a) 1 (Qc_of_nat (card child) * 1).
Proof. intros card cols rows child gp x a. exact (bayes_uniform_prior card cols rows child gp K2 1 x a eq_refl). Qed.
Print Assumptions C06_bayes_closed_form_k2.

(* BDeu: alpha = ess / (r * q), r = child cardinality, q = number of parent configurations *)
Theorem C06_bayes_closed_form_bdeu : forall card cols rows child gp ess x a,
  child_in_range card cols rows child -> (x < card child)%nat -> in_states card gp a ->
  let alpha := ess / (Qc_of_nat (card child) * Qc_of_nat (prod (map card (sort_vars gp)))) in
  exists T, bayes_cpd card cols rows child gp (BDeu ess) = Some T /\
    named_get None card (sort_vars gp) T x a
    = spec_posterior (cnt_xp cols rows child x gp a) (cnt_p cols rows gp a) alpha (Qc_of_nat (card child) * alpha).
Proof.
  intros card cols rows child gp ess x a.
  exact (bayes_uniform_prior card cols rows child gp (BDeu ess) _ x a eq_refl).
Qed.
Print Assumptions C06_bayes_closed_form_bdeu.

(* explicit Dirichlet pseudo-counts P (a table in the sorted-parent layout, shape checked) *)
Theorem C06_bayes_closed_form_dirichlet : forall card cols rows child gp P x a,
  shape_ok (card child) (prod (map card (sort_vars gp))) P = true ->
  child_in_range card cols rows child -> (x < card child)%nat -> in_states card gp a ->
  exists T, bayes_cpd card cols rows child gp (Dirichlet P) = Some T /\
    let j := ravel (map card (sort_vars gp)) (map a (sort_vars gp)) in
    named_get None card (sort_vars gp) T x a
    = spec_posterior (cnt_xp cols rows child x gp a) (cnt_p cols rows gp a)
                     (tget 0 P x j) (sumQ (map (fun x' => tget 0 P x' j) (seq 0 (card child)))).
Proof. exact bayes_dirichlet. Qed.
Print Assumptions C06_bayes_closed_form_dirichlet.

(* ---- the fitted CPDs validate ------------------------------------------------------------------ *)
(* MLE: right shape, every column (seen or unseen configuration) finite and summing to exactly 1 *)
Theorem C06_columns_normalised : forall card cols rows child gp,
  nonneg_weights rows -> (0 < card child)%nat ->
  cpd_valid (card child) (prod (map card (sort_vars gp))) (mle_cpd card cols rows child gp).
Proof. exact mle_valid. Qed.
Print Assumptions C06_columns_normalised.

(* Bayesian / fit_update: valid whenever no column total (counts + pseudo-counts) is zero *)
Theorem C06_columns_normalised_bayes : forall card cols rows child gp pr P,
  pseudo_counts (card child) (prod (map card (sort_vars gp))) pr = Some P ->
  (forall j, (j < prod (map card (sort_vars gp)))%nat ->
     sumQ (map (fun x => tget 0 (state_counts card cols rows child (sort_vars gp)) x j + tget 0 P x j)
               (seq 0 (card child))) <> 0) ->
  exists T, bayes_cpd card cols rows child gp pr = Some T /\
            cpd_valid (card child) (prod (map card (sort_vars gp))) T.
Proof. exact bayes_valid. Qed.
Print Assumptions C06_columns_normalised_bayes.

(* every node of the network gets a CPD (also through the estimators that rebuild the network from its edges)
   and nothing else does *)
Theorem C06_every_node_fitted : forall rebuilt nodes edges v,
  In v nodes -> In v (estimated_nodes rebuilt nodes edges).
Proof. exact every_node_estimated. Qed.
Print Assumptions C06_every_node_fitted.

Theorem C06_no_extra_node_fitted : forall rebuilt nodes edges v,
  (forall e, In e edges -> In (fst e) nodes /\ In (snd e) nodes) ->
  In v (estimated_nodes rebuilt nodes edges) -> In v nodes.
Proof. exact estimated_nodes_no_extra. Qed.
Print Assumptions C06_no_extra_node_fitted.

(* before fix: commits cccea0b / aa23a9c an isolated node got no CPD *)
Theorem C06_every_node_fitted_prefix_refuted :
  exists nodes edges v, In v nodes /\ ~ In v (estimated_nodes_prefix nodes edges).
Proof. exists [0; 1; 2]%nat, [(0, 1)]%nat, 2%nat. split; [simpl; auto|]. vm_compute. intros [H|[H|[]]]; discriminate. Qed.
Print Assumptions C06_every_node_fitted_prefix_refuted.

(* ---- invariances (equality of the whole fitted table, all three estimators) ----------------------- *)
Theorem C06_row_perm_invariant : forall card cols rows rows', Permutation rows rows' ->
  (forall child gp, mle_cpd card cols rows child gp = mle_cpd card cols rows' child gp) /\
  (forall child gp pr, bayes_cpd card cols rows child gp pr = bayes_cpd card cols rows' child gp pr) /\
  (forall gp prev n, fit_update_cpd card cols rows gp prev n = fit_update_cpd card cols rows' gp prev n).
Proof. exact row_perm_invariant. Qed.
Print Assumptions C06_row_perm_invariant.

(* the same data with its columns in another order: every row is the same set of (column, state) pairs *)
Theorem C06_col_perm_invariant : forall card cols cols' rows rows',
  NoDup cols -> Forall2 (same_row_upto_columns cols cols') rows rows' ->
  (forall child gp, mle_cpd card cols rows child gp = mle_cpd card cols' rows' child gp) /\
  (forall child gp pr, bayes_cpd card cols rows child gp pr = bayes_cpd card cols' rows' child gp pr) /\
  (forall gp prev n, fit_update_cpd card cols rows gp prev n = fit_update_cpd card cols' rows' gp prev n).
Proof. exact col_perm_invariant. Qed.
Print Assumptions C06_col_perm_invariant.

(* the order in which the graph lists a node's parents *)
Theorem C06_parent_order_invariant : forall card cols rows gp gp', Permutation gp gp' ->
  (forall child, mle_cpd card cols rows child gp = mle_cpd card cols rows child gp') /\
  (forall child pr, bayes_cpd card cols rows child gp pr = bayes_cpd card cols rows child gp' pr) /\
  (forall prev n, fit_update_cpd card cols rows gp prev n = fit_update_cpd card cols rows gp' prev n).
Proof. exact parent_order_invariant. Qed.
Print Assumptions C06_parent_order_invariant.

(* weighted MLE is count/total: multiplying EVERY row weight by a common non-zero factor leaves the whole fitted
   table unchanged -- in particular a configuration whose total weight is tiny but non-zero is still an OBSERVED
   configuration (the uniform fill is for all-zero columns only, there is no tolerance) *)
Theorem C06_mle_weight_scale_invariant : forall card cols rows child gp c, c <> 0 ->
  mle_cpd card cols (scale_rows c rows) child gp = mle_cpd card cols rows child gp.
Proof. exact mle_scale_invariant. Qed.
Print Assumptions C06_mle_weight_scale_invariant.

(* ---- fit_update = Bayesian fit with prior = previous CPD (by NAMED parent configuration) x n_prev -------- *)
(* holds for ANY order in which the previous CPD lists its parents (what defect D4 broke) *)
Theorem C06_fit_update_eq_bayes : forall card cols rows gp prev n x a,
  Permutation gp (c_parents prev) ->
  shape_ok (card (c_var prev)) (prod (map card (c_parents prev))) (c_table prev) = true ->
  child_in_range card cols rows (c_var prev) -> (x < card (c_var prev))%nat -> in_states card gp a ->
  exists T, fit_update_cpd card cols rows gp prev n = Some T /\
    named_get None card (sort_vars gp) T x a
    = spec_posterior (cnt_xp cols rows (c_var prev) x gp a) (cnt_p cols rows gp a)
        (n * named_get 0 card (c_parents prev) (c_table prev) x a)
        (sumQ (map (fun x' => n * named_get 0 card (c_parents prev) (c_table prev) x' a)
                   (seq 0 (card (c_var prev))))).
Proof. exact fit_update_closed_form. Qed.
Print Assumptions C06_fit_update_eq_bayes.

(* the pre-5aac298 code (existing CPD's columns used in its own parent order) violates that statement:
   P(A | C, B) declared with evidence [C; B], |B| = 3, |C| = 2, three rows, n_prev = 4 (defect D4) *)
Definition d4_card (v : var) : nat := match v with O => 2 | 1 => 3 | _ => 2 end%nat.
Definition d4_prev : cpd :=
  {| c_var := 0%nat; c_parents := [2; 1]%nat;
     c_table := [[Q2Qc (1#8); Q2Qc (1#4); Q2Qc (3#8); Q2Qc (1#2); Q2Qc (5#8); Q2Qc (3#4)];
                 [Q2Qc (7#8); Q2Qc (3#4); Q2Qc (5#8); Q2Qc (1#2); Q2Qc (3#8); Q2Qc (1#4)]] |}.
Definition d4_rows : list wrow := unweighted [[0; 1; 0]; [0; 1; 0]; [1; 2; 1]]%nat.
Definition d4_a (v : var) : nat := match v with 1 => 1 | _ => 0 end%nat.   (* B = 1, C = 0 *)

Theorem C06_fit_update_presort_refuted :
  exists T, fit_update_cpd_unsorted d4_card [0; 1; 2]%nat d4_rows [2; 1]%nat d4_prev (Q2Qc 4) = Some T /\
    named_get None d4_card (sort_vars [2; 1]%nat) T 0%nat d4_a
    <> spec_posterior (cnt_xp [0; 1; 2]%nat d4_rows 0%nat 0%nat [2; 1]%nat d4_a) (cnt_p [0; 1; 2]%nat d4_rows [2; 1]%nat d4_a)
         (Q2Qc 4 * named_get 0 d4_card [2; 1]%nat (c_table d4_prev) 0%nat d4_a)
         (sumQ (map (fun x' => Q2Qc 4 * named_get 0 d4_card [2; 1]%nat (c_table d4_prev) x' d4_a) (seq 0 2)%nat)).
Proof. eexists. split; [vm_compute; reflexivity|]. vm_compute. discriminate. Qed.
Print Assumptions C06_fit_update_presort_refuted.

(* ---- EM -------------------------------------------------------------------------------------------- *)
(* without latent variables the M-step of an EM iteration IS the maximum-likelihood estimate, whatever
   the current CPDs (clamp = the 1e-10 floor of _get_log_likelihood, any positive value) *)
Theorem C06_em_no_latent_is_mle : forall card cols rows cpds clamp child gp, 0 < clamp ->
  m_step card cols rows [] cpds clamp child gp = mle_cpd card cols (unweighted rows) child gp.
Proof. exact em_no_latent_is_mle. Qed.
Print Assumptions C06_em_no_latent_is_mle.

(* EM ascent ("never decreases the observed-data likelihood") is a statement over the reals (ln, Gibbs'
   inequality).  It is proved below: C06_em_monotone_abstract (any finite discrete model, EMReal.v) and
   C06_em_monotone_model (Model.v's e_step + m_step, embedded with Q2R, as an instance, EMInst.v), both depending
   only on the standard library's axioms of the real numbers.  pgmpy's 1e-10 floor is OUTSIDE these theorems (the
   model theorem assumes it inactive); harness/c06.py additionally checks ascent on pgmpy run by run as a TEST.
   The purely rational fact first: the E-step is a posterior -- for every distinct data row the weights given to
   its latent completions sum to the row's multiplicity (mass is neither created nor lost), the weights being
   likelihood(row, c) / sum_c' likelihood(row, c'), floor included -- and the M-step is the weighted MLE (by
   definition of m_step), to which C06_mle_closed_form / C06_columns_normalised apply. *)
Theorem C06_em_monotone_partial : forall card cols rows lats cpds clamp u, 0 < clamp ->
  let lc := completions (map card lats) in
  let lik := fun c => joint_clamped card cpds clamp (val (cols ++ lats) (u ++ c)) in
  lc <> [] ->
  sumQ (map (fun c => lik c / sumQ (map lik lc) * Qc_of_nat (count_occ rows_dec rows u)) lc)
  = Qc_of_nat (count_occ rows_dec rows u).
Proof. exact e_step_row_mass. Qed.
Print Assumptions C06_em_monotone_partial.

(* ---- EM ascent over the real numbers --------------------------------------------------------------- *)
(* Abstract finite model (see the header of EMReal.v): groups g (node, parent configuration) with cells k
   (states), parameter th g k, complete configurations c using cell (g,k) [n g k c] times,
   cprob th c = prod th g k ^ n g k c; observed rows xs with multiplicities m and completions cs x;
   loglik th = sum_x m x * ln (sum_{c in cs x} cprob th c); resp = posterior of a completion (E-step);
   ecount = expected cell counts; [em_update th th'] = th' is ecount normalised per group wherever the group's
   expected total is positive (anything non-negative elsewhere).  Hypotheses: positive multiplicities, th
   non-negative with every group summing to at most 1 ([sub_distr]; zeros allowed), every observed row
   possible under th ([observable]).  Conclusion: the rows stay possible and the likelihood does not decrease. *)
Theorem C06_em_monotone_abstract :
  forall (X C G K : Type) (xs : list X) (m : X -> R) (cs : X -> list C) (gs : list G) (ks : G -> list K)
         (n : G -> K -> C -> nat) (th th' : G -> K -> R),
  (forall x, In x xs -> (0 < m x)%R) ->
  sub_distr G K gs ks th ->
  observable X C G K xs cs gs ks n th ->
  em_update X C G K xs m cs gs ks n th th' ->
  observable X C G K xs cs gs ks n th' /\
  (loglik X C G K xs m cs gs ks n th <= loglik X C G K xs m cs gs ks n th')%R.
Proof. exact em_ascent. Qed.
Print Assumptions C06_em_monotone_abstract.

(* any number of iterations of the textbook step [em_next] (zero-total groups unchanged): every iterate is again
   a distribution under which the data are possible, and each is at least as likely as its predecessor *)
Theorem C06_em_iterates_monotone_abstract :
  forall (X C G K : Type) (xs : list X) (m : X -> R) (cs : X -> list C) (gs : list G) (ks : G -> list K)
         (n : G -> K -> C -> nat) (th : G -> K -> R),
  (forall x, In x xs -> (0 < m x)%R) ->
  is_distr G K gs ks th ->
  observable X C G K xs cs gs ks n th ->
  forall i,
    is_distr G K gs ks (em_iter X C G K xs m cs gs ks n i th) /\
    observable X C G K xs cs gs ks n (em_iter X C G K xs m cs gs ks n i th) /\
    (loglik X C G K xs m cs gs ks n (em_iter X C G K xs m cs gs ks n i th)
     <= loglik X C G K xs m cs gs ks n (em_iter X C G K xs m cs gs ks n (S i) th))%R.
Proof. exact em_iter_ascent. Qed.
Print Assumptions C06_em_iterates_monotone_abstract.

(* The model is an instance (EMInst.v: rows = data rows, completions u ++ c, group = (CPD, column), cell = child
   state, th = Q2R of the table entries).  (1) every weight the E-step writes into the expanded frame is
   multiplicity * responsibility; *)
Theorem C06_em_estep_weights_are_posterior : forall card cols rows lats cpds clamp,
  0 < clamp -> completions (map card lats) <> [] ->
  (forall u c cp, In u rows -> In c (completions (map card lats)) -> In cp cpds ->
     in_states card (c_var cp :: c_parents cp) (val (cols ++ lats) (u ++ c))) ->
  (forall u c cp, In u rows -> In c (completions (map card lats)) -> In cp cpds ->
     clamp <= cpd_value card cp (val (cols ++ lats) (u ++ c))) ->
  forall rw, In rw (e_step card cols rows lats cpds clamp) ->
  exists u c, In u rows /\ In c (completions (map card lats)) /\ fst rw = u ++ c /\
    QcR (snd rw) = (INR (count_occ rows_dec rows u) *
                    resp (list nat) (list nat) (cpd * nat) nat (csI card lats) (gsI card cpds) (ksI card)
                         (nI card cols lats) thI u (u ++ c))%R.
Proof. exact ex_weight_R. Qed.
Print Assumptions C06_em_estep_weights_are_posterior.

(* (2) the tables of the M-step (read at the same named parent configuration) are the normalised expected counts,
   i.e. an M-step output in the sense of the abstract theorem *)
Theorem C06_em_mstep_is_normalised_expected_counts : forall card cols rows lats cpds clamp,
  0 < clamp -> completions (map card lats) <> [] ->
  (forall u c cp, In u rows -> In c (completions (map card lats)) -> In cp cpds ->
     in_states card (c_var cp :: c_parents cp) (val (cols ++ lats) (u ++ c))) ->
  (forall u c cp, In u rows -> In c (completions (map card lats)) -> In cp cpds ->
     clamp <= cpd_value card cp (val (cols ++ lats) (u ++ c))) ->
  (forall cp, In cp cpds -> NoDup (c_parents cp)) ->
  (forall cp, In cp cpds -> (0 < card (c_var cp))%nat) ->
  em_update (list nat) (list nat) (cpd * nat) nat rows (fun _ => 1%R) (csI card lats) (gsI card cpds) (ksI card)
            (nI card cols lats) thI (thN card cols rows lats cpds clamp).
Proof. exact mstep_is_update. Qed.
Print Assumptions C06_em_mstep_is_normalised_expected_counts.

(* (3) hence one iteration of the model never decreases the observed-data log-likelihood
     loglikR cpds = sum over the data rows of ln (Q2R (sum over latent completions of the product of CPD values)),
   [em_step] = the CPDs pgmpy builds from the M-step tables.  Side conditions: data rows pass the model's guard
   [row_ok], every CPD's family lies in columns ++ latents, has distinct parents and distribution columns, at
   least one latent completion exists, and the floor is INACTIVE on the data (clamp <= every CPD value met). *)
Theorem C06_em_monotone_model : forall card cols rows lats cpds clamp,
  0 < clamp ->
  completions (map card lats) <> [] ->
  (forall u, In u rows -> row_ok card cols u = true) ->
  (forall cp, In cp cpds -> fam_in_cols (cols ++ lats) (c_var cp :: c_parents cp) = true) ->
  (forall u c cp, In u rows -> In c (completions (map card lats)) -> In cp cpds ->
     clamp <= cpd_value card cp (val (cols ++ lats) (u ++ c))) ->
  (forall cp, In cp cpds -> NoDup (c_parents cp)) ->
  (forall cp, In cp cpds -> (0 < card (c_var cp))%nat) ->
  (forall cp j, In cp cpds -> (j < prod (map card (c_parents cp)))%nat ->
     (forall k, (k < card (c_var cp))%nat -> 0 <= tget 0 (c_table cp) k j) /\
     sumQ (map (fun k => tget 0 (c_table cp) k j) (seq 0 (card (c_var cp)))) = 1) ->
  (forall u, In u rows -> (0 < QcR (row_lik card cols lats (em_step card cols rows lats cpds clamp) u))%R) /\
  (loglikR card cols rows lats cpds <= loglikR card cols rows lats (em_step card cols rows lats cpds clamp))%R.
Proof. exact em_model_ascent_frame. Qed.
Print Assumptions C06_em_monotone_model.
(* non-vacuity: EMReal.ex_tiny_hyps / ex_tiny_ascent (abstract) and EMInst.exm_step_value / exm_ascent (model:
   one latent and one observed binary variable; the likelihood goes from 45/512 to 4/27). *)

(* ---- non-vacuity: a concrete frame meeting the hypotheses (the D4 data, A's parents listed as [C; B]) ---- *)
Example ex_hyps :
  child_in_range d4_card [0; 1; 2]%nat d4_rows 0%nat /\ in_states d4_card [2; 1]%nat d4_a /\
  nonneg_weights d4_rows /\ cnt_p [0; 1; 2]%nat d4_rows [2; 1]%nat d4_a <> 0 /\
  Permutation [1; 2]%nat (c_parents d4_prev) /\
  shape_ok (d4_card 0%nat) (prod (map d4_card (c_parents d4_prev))) (c_table d4_prev) = true.
Proof.
  repeat split.
  - intros rw H. simpl in H. destruct H as [<-|[<-|[<-|[]]]]; vm_compute; auto.
  - intros v H. simpl in H. destruct H as [<-|[<-|[]]]; vm_compute; auto.
  - intros rw H. simpl in H. destruct H as [<-|[<-|[<-|[]]]]; vm_compute; discriminate.
  - vm_compute. discriminate.
  - apply perm_swap.
Qed.
(* the fitted value there: P(A=0 | B=1, C=0) = 2/2 by MLE, and the unseen configuration B=0,C=0 is uniform *)
Example ex_mle_value :
  named_get None d4_card (sort_vars [2; 1]%nat) (mle_cpd d4_card [0; 1; 2]%nat d4_rows 0%nat [2; 1]%nat) 0%nat d4_a = Some 1
  /\ named_get None d4_card (sort_vars [2; 1]%nat) (mle_cpd d4_card [0; 1; 2]%nat d4_rows 0%nat [2; 1]%nat) 0%nat (fun _ => O)
     = Some (Q2Qc (1#2)).
Proof. split; vm_compute; f_equal; apply Qc_is_canon; reflexivity. Qed.
(* the repaired fit_update on the D4 input agrees with the closed form: (2 + 4 * 1/4) / (2 + 4) = 1/2 *)
Example ex_fit_update_value :
  exists T, fit_update_cpd d4_card [0; 1; 2]%nat d4_rows [2; 1]%nat d4_prev (Q2Qc 4) = Some T /\
            named_get None d4_card (sort_vars [2; 1]%nat) T 0%nat d4_a = Some (Q2Qc (1#2)).
Proof. eexists. split; [vm_compute; reflexivity|]. vm_compute. f_equal. apply Qc_is_canon. reflexivity. Qed.
