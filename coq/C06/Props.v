(* C06 property theorems (being filled in). *)
From Coq Require Import List.
From PV Require Import C06.Model.
