(* C06: one EM iteration.  Without latent variables the M-step is the MLE; E-step weights are a posterior. *)
From Coq Require Import List Bool Arith PeanoNat ZArith QArith Qcanon Lia Permutation.
From PV Require Import Base.Ravel C06.Model C06.Spec C06.Proofs C06.ProofsEst.
Import ListNotations.
Open Scope Qc_scope.

(* ------------------------------------------------------------------ drop_duplicates + multiplicities *)
Lemma count_occ_remove_neq (h x : list nat) l : h <> x ->
  count_occ rows_dec (remove rows_dec h l) x = count_occ rows_dec l x.
Proof.
  intros Hne. induction l as [|y l IH]; simpl; [reflexivity|].
  destruct (rows_dec h y) as [->|Hhy]; simpl.
  - destruct (rows_dec y x); [contradiction|exact IH].
  - destruct (rows_dec y x); rewrite IH; reflexivity.
Qed.

Lemma count_occ_remove_eq (x : list nat) l : count_occ rows_dec (remove rows_dec x l) x = O.
Proof. apply count_occ_not_In. apply remove_In. Qed.

Lemma count_occ_uniq x : forall l,
  count_occ rows_dec (uniq_first l) x = if (count_occ rows_dec l x =? 0)%nat then O else 1%nat.
Proof.
  induction l as [|h l IH]; simpl; [reflexivity|].
  destruct (rows_dec h x) as [->|Hne]; simpl.
  - rewrite count_occ_remove_eq. reflexivity.
  - rewrite count_occ_remove_neq by exact Hne. exact IH.
Qed.

Lemma sum_split_remove (g : list nat -> Qc) x : forall l,
  sumQ (map g l) = Qc_of_nat (count_occ rows_dec l x) * g x + sumQ (map g (remove rows_dec x l)).
Proof.
  induction l as [|h l IH]; simpl.
  - rewrite Qc_of_nat_0. ring.
  - destruct (rows_dec x h) as [<-|Hne].
    + destruct (rows_dec x x) as [_|N]; [|contradiction]. rewrite Qc_of_nat_S, IH. ring.
    + destruct (rows_dec h x) as [E|_]; [symmetry in E; contradiction|]. simpl. rewrite IH. ring.
Qed.

(* summing f over the rows = summing multiplicity * f over the distinct rows *)
Lemma sum_dedup (f : list nat -> Qc) : forall rows,
  sumQ (map (fun u => Qc_of_nat (count_occ rows_dec rows u) * f u) (uniq_first rows)) = sumQ (map f rows).
Proof.
  induction rows as [|x rows IH]; simpl; [reflexivity|].
  destruct (rows_dec x x) as [_|N]; [|contradiction].
  rewrite (sumQ_map_ext _ (fun u => Qc_of_nat (count_occ rows_dec rows u) * f u)).
  2:{ intros u Hu. apply in_remove in Hu. destruct Hu as [_ Hne].
      destruct (rows_dec x u) as [E|_]; [symmetry in E; contradiction|reflexivity]. }
  rewrite <- IH.
  rewrite (sum_split_remove (fun u => Qc_of_nat (count_occ rows_dec rows u) * f u) x (uniq_first rows)).
  rewrite count_occ_uniq. rewrite Qc_of_nat_S.
  destruct (count_occ rows_dec rows x) as [|c]; cbn [Nat.eqb].
  - rewrite !Qc_of_nat_0. ring.
  - rewrite (Qc_of_nat_S 0), Qc_of_nat_0. ring.
Qed.

(* ------------------------------------------------------------------ the clamped likelihood is positive *)
Lemma Qcmax_pos a c : 0 < c -> 0 < Qcmax a c.
Proof.
  intros Hc. unfold Qcmax. destruct (Qclt_le_dec a c) as [_|Hle]; [exact Hc|].
  eapply Qclt_le_trans; eassumption.
Qed.

Lemma joint_clamped_pos card cpds clamp a : 0 < clamp -> 0 < joint_clamped card cpds clamp a.
Proof.
  intros Hc. unfold joint_clamped. induction cpds as [|c cpds IH]; simpl.
  - reflexivity.
  - replace 0 with (0 * fold_right (fun c acc => Qcmax (cpd_value card c a) clamp * acc) 1 cpds) by ring.
    apply Qcmult_lt_compat_r; [exact IH|]. apply Qcmax_pos. exact Hc.
Qed.

(* ------------------------------------------------------------------ no latent variable *)
Lemma flat_map_single {A B} (F : A -> list B) (G : A -> B) l :
  (forall u, F u = [G u]) -> flat_map F l = map G l.
Proof. intros H. induction l as [|u l IH]; simpl; [reflexivity|]. rewrite H, IH. reflexivity. Qed.

Lemma e_step_no_latent card cols rows cpds clamp : 0 < clamp ->
  e_step card cols rows [] cpds clamp
  = map (fun u => (u, Qc_of_nat (count_occ rows_dec rows u))) (uniq_first rows).
Proof.
  intros Hc. unfold e_step. apply flat_map_single. intros u.
  change (completions (map card [])) with [@nil nat]. cbn [map sumQ fold_right].
  rewrite !app_nil_r.
  pose proof (joint_clamped_pos card cpds clamp (val cols u) Hc) as Hpos.
  assert (E : forall l m : Qc, l <> 0 -> l / (l + 0) * m = m) by (intros; field; assumption).
  rewrite E; [reflexivity|]. intros E0. rewrite E0 in Hpos. apply Qclt_not_le in Hpos. apply Hpos. apply Qcle_refl.
Qed.

Lemma wcount_dedup cols rows vs ss :
  wcount cols (map (fun u => (u, Qc_of_nat (count_occ rows_dec rows u))) (uniq_first rows)) vs ss
  = wcount cols (unweighted rows) vs ss.
Proof.
  unfold wcount, unweighted. rewrite !sumQ_filter. rewrite !map_map. cbn [fst snd].
  rewrite <- (sum_dedup (fun r => if row_matches cols vs ss r then 1 else 0) rows).
  apply sumQ_map_ext. intros u _. destruct (row_matches cols vs ss u); ring.
Qed.

Lemma em_no_latent_is_mle card cols rows cpds clamp child gp : 0 < clamp ->
  m_step card cols rows [] cpds clamp child gp = mle_cpd card cols (unweighted rows) child gp.
Proof.
  intros Hc. unfold m_step. rewrite e_step_no_latent by exact Hc. rewrite app_nil_r.
  unfold mle_cpd. f_equal. f_equal. apply state_counts_ext. intros vs ss. apply wcount_dedup.
Qed.

(* ------------------------------------------------------------------ E-step weights are a posterior *)
(* for every distinct row the weights of its completions sum to its multiplicity: the E-step distributes
   each observed row over the latent completions, it neither creates nor loses mass *)
Lemma e_step_row_mass card cols rows lats cpds clamp u : 0 < clamp ->
  let lc := completions (map card lats) in
  let lik := fun c => joint_clamped card cpds clamp (val (cols ++ lats) (u ++ c)) in
  lc <> [] ->
  sumQ (map (fun c => lik c / sumQ (map lik lc) * Qc_of_nat (count_occ rows_dec rows u)) lc)
  = Qc_of_nat (count_occ rows_dec rows u).
Proof.
  intros Hc lc lik Hne.
  assert (Hs : sumQ (map lik lc) <> 0).
  { destruct lc as [|c0 lc']; [contradiction|]. simpl. intros E.
    assert (H0 : 0 < lik c0) by (apply joint_clamped_pos; exact Hc).
    assert (H1 : 0 <= sumQ (map lik lc')).
    { apply sumQ_nonneg. intros y Hy. apply in_map_iff in Hy. destruct Hy as [c [<- _]].
      apply Qclt_le_weak. apply joint_clamped_pos. exact Hc. }
    assert (H2 : lik c0 + 0 <= lik c0 + sumQ (map lik lc')) by (apply Qcplus_le_compat; [apply Qcle_refl|exact H1]).
    rewrite E in H2. replace (lik c0 + 0) with (lik c0) in H2 by ring.
    eapply Qclt_not_le; eassumption. }
  rewrite (sumQ_map_ext _ (fun c => (Qc_of_nat (count_occ rows_dec rows u) / sumQ (map lik lc)) * lik c)).
  - rewrite sumQ_map_mul_l. field. exact Hs.
  - intros c _. field. exact Hs.
Qed.
