(* C06 lemmas and proofs *)
From Coq Require Import List Bool Arith PeanoNat ZArith QArith Qcanon Lia Permutation.
From PV Require Import Base.Ravel C06.Model C06.Spec.
Import ListNotations.
Open Scope Qc_scope.

(* ------------------------------------------------------------------ sums in Qc *)
Lemma sumQ_app l1 l2 : sumQ (l1 ++ l2) = sumQ l1 + sumQ l2.
Proof. induction l1 as [|a l1 IH]; simpl; [ring|]. rewrite IH. ring. Qed.

Lemma sumQ_map_add {A} (f g : A -> Qc) l :
  sumQ (map (fun x => f x + g x) l) = sumQ (map f l) + sumQ (map g l).
Proof. induction l as [|a l IH]; simpl; [ring|]. rewrite IH. ring. Qed.

Lemma sumQ_map_ext {A} (f g : A -> Qc) l : (forall x, In x l -> f x = g x) -> sumQ (map f l) = sumQ (map g l).
Proof. intros H. f_equal. apply map_ext_in. exact H. Qed.

Lemma sumQ_map_mul_l {A} (c : Qc) (f : A -> Qc) l : sumQ (map (fun x => c * f x) l) = c * sumQ (map f l).
Proof. induction l as [|a l IH]; simpl; [ring|]. rewrite IH. ring. Qed.

Lemma sumQ_map_div {A} (f : A -> Qc) (s : Qc) l : sumQ (map (fun x => f x / s) l) = sumQ (map f l) / s.
Proof. induction l as [|a l IH]; simpl; unfold Qcdiv in *; [ring|]. rewrite IH. ring. Qed.

Lemma sumQ_map_zero {A} (l : list A) : sumQ (map (fun _ => 0) l) = 0.
Proof. induction l; simpl; [reflexivity|]. rewrite IHl. ring. Qed.

Lemma sumQ_filter {A} (P : A -> bool) (w : A -> Qc) l :
  sumQ (map w (filter P l)) = sumQ (map (fun x => if P x then w x else 0) l).
Proof. induction l as [|a l IH]; simpl; [reflexivity|]. destruct (P a); simpl; rewrite IH; ring. Qed.

Lemma sumQ_swap {A B} (h : A -> B -> Qc) (la : list A) (lb : list B) :
  sumQ (map (fun a => sumQ (map (fun b => h a b) lb)) la) = sumQ (map (fun b => sumQ (map (fun a => h a b) la)) lb).
Proof.
  induction la as [|a la IH]; simpl.
  - rewrite sumQ_map_zero. reflexivity.
  - rewrite IH. rewrite <- sumQ_map_add. reflexivity.
Qed.

Lemma Qc_of_nat_0 : Qc_of_nat 0 = 0.
Proof. apply Qc_is_canon. reflexivity. Qed.

Lemma Qc_of_nat_S n : Qc_of_nat (S n) = Qc_of_nat n + 1.
Proof.
  apply Qc_is_canon. unfold Qc_of_nat, Qcplus, Q2Qc. cbn [this].
  rewrite !Qred_correct. rewrite Nat2Z.inj_succ. unfold Z.succ. rewrite inject_Z_plus. reflexivity.
Qed.

Lemma Qc_of_nat_nonzero n : (0 < n)%nat -> Qc_of_nat n <> 0.
Proof.
  intros Hn E. unfold Qc_of_nat in E. apply Q2Qc_eq_iff in E.
  unfold Qeq, inject_Z in E. cbn [Qnum Qden] in E. lia.
Qed.

Lemma sumQ_ones (r : nat) s : sumQ (map (fun _ : nat => 1) (seq s r)) = Qc_of_nat r.
Proof.
  revert s. induction r as [|r IH]; intros s; simpl; [symmetry; apply Qc_of_nat_0|].
  rewrite IH, Qc_of_nat_S. ring.
Qed.

(* one-hot sum *)
Lemma sum_indicator_seq (v : nat) (w : Qc) : forall r s, (s <= v < s + r)%nat ->
  sumQ (map (fun x => if (v =? x)%nat then w else 0) (seq s r)) = w.
Proof.
  induction r as [|r IH]; intros s H; [lia|]. simpl.
  destruct (Nat.eqb_spec v s) as [E|E].
  - subst. rewrite (sumQ_map_ext _ (fun _ => 0)); [rewrite sumQ_map_zero; ring|].
    intros x Hx. apply in_seq in Hx. destruct (Nat.eqb_spec s x); [lia|reflexivity].
  - rewrite IH by lia. ring.
Qed.

Lemma sumQ_nonneg l : (forall x, In x l -> 0 <= x) -> 0 <= sumQ l.
Proof.
  induction l as [|a l IH]; intros H; simpl; [apply Qcle_refl|].
  replace 0 with (0 + 0) by ring. apply Qcplus_le_compat; [apply H; left; reflexivity|].
  apply IH. intros x Hx. apply H. right. exact Hx.
Qed.

Lemma sumQ_zero_all l : (forall x, In x l -> 0 <= x) -> sumQ l = 0 -> forall x, In x l -> x = 0.
Proof.
  induction l as [|a l IH]; intros Hn Hs x Hx; [destruct Hx|]. simpl in Hs.
  assert (Ha : 0 <= a) by (apply Hn; left; reflexivity).
  assert (Hl : 0 <= sumQ l) by (apply sumQ_nonneg; intros y Hy; apply Hn; right; exact Hy).
  assert (Ha0 : a = 0).
  { apply Qcle_antisym; [|exact Ha].
    rewrite <- Hs. replace a with (a + 0) at 1 by ring. apply Qcplus_le_compat; [apply Qcle_refl|exact Hl]. }
  destruct Hx as [->|Hx]; [exact Ha0|].
  apply IH; [intros y Hy; apply Hn; right; exact Hy| |exact Hx].
  rewrite Ha0 in Hs. rewrite <- Hs. ring.
Qed.

(* ------------------------------------------------------------------ tables *)
Lemma tget_tbuild {A} (d : A) r q f x j : (x < r)%nat -> (j < q)%nat -> tget d (tbuild r q f) x j = f x j.
Proof.
  intros Hx Hj. unfold tget, tbuild.
  rewrite nth_indep with (d' := (fun x => map (fun j => f x j) (seq 0 q)) O)
    by (rewrite map_length, seq_length; exact Hx).
  rewrite (map_nth (fun x => map (fun j => f x j) (seq 0 q)) (seq 0 r) O x).
  rewrite seq_nth by exact Hx. cbn [Nat.add].
  rewrite nth_indep with (d' := (fun j => f x j) O) by (rewrite map_length, seq_length; exact Hj).
  rewrite (map_nth (fun j => f x j) (seq 0 q) O j). rewrite seq_nth by exact Hj. reflexivity.
Qed.

Lemma tbuild_ext {A} r q (f g : nat -> nat -> A) : (forall x j, f x j = g x j) -> tbuild r q f = tbuild r q g.
Proof. intros H. unfold tbuild. apply map_ext. intros x. apply map_ext. intros j. apply H. Qed.

Lemma column_tbuild {A} (d : A) r q f j : (j < q)%nat ->
  column d (tbuild r q f) j = map (fun x => f x j) (seq 0 r).
Proof.
  intros Hj. unfold column, tbuild. rewrite map_map. apply map_ext. intros x.
  rewrite nth_indep with (d' := (fun j => f x j) O) by (rewrite map_length, seq_length; exact Hj).
  rewrite (map_nth (fun j => f x j) (seq 0 q) O j). rewrite seq_nth by exact Hj. reflexivity.
Qed.

Lemma shape_ok_tbuild {A} r q (f : nat -> nat -> A) : shape_ok r q (tbuild r q f) = true.
Proof.
  unfold shape_ok, tbuild. rewrite map_length, seq_length, Nat.eqb_refl. cbn [andb].
  apply forallb_forall. intros row Hrow. apply in_map_iff in Hrow. destruct Hrow as [x [<- _]].
  rewrite map_length, seq_length. apply Nat.eqb_refl.
Qed.

(* ------------------------------------------------------------------ named counts *)
Lemma list_eqb_eq a : forall b, list_eqb a b = true -> a = b.
Proof.
  induction a as [|x a IH]; intros [|y b] H; simpl in H; try discriminate; [reflexivity|].
  apply andb_true_iff in H. destruct H as [H1 H2]. apply Nat.eqb_eq in H1. f_equal; [exact H1|apply IH; exact H2].
Qed.

Lemma row_matches_agreesb cols vs a r : row_matches cols vs (map a vs) r = agreesb cols vs a r.
Proof. unfold row_matches, agreesb. induction vs as [|v vs IH]; simpl; [reflexivity|]. rewrite IH. reflexivity. Qed.

Lemma wcount_child cols rows child x ps a :
  wcount cols rows (child :: ps) (x :: map a ps) = cnt_xp cols rows child x ps a.
Proof.
  unfold wcount, cnt_xp. f_equal. f_equal. apply filter_ext. intros rw.
  unfold row_matches. cbn [map list_eqb]. f_equal. apply (row_matches_agreesb cols ps a (fst rw)).
Qed.

Lemma in_states_in_range card ps a : in_states card ps a -> in_range (map card ps) (map a ps).
Proof.
  induction ps as [|p ps IH]; intros H; simpl; constructor.
  - apply H. left. reflexivity.
  - apply IH. intros v Hv. apply H. right. exact Hv.
Qed.

(* C06_counts: the cell addressed by a named configuration is the weight of the rows with that configuration *)
Lemma counts_cell card cols rows child ps x a :
  (x < card child)%nat -> in_states card ps a ->
  named_get 0 card ps (state_counts card cols rows child ps) x a = cnt_xp cols rows child x ps a.
Proof.
  intros Hx Ha. unfold named_get, state_counts.
  pose proof (in_states_in_range _ _ _ Ha) as Hr.
  rewrite tget_tbuild by (try exact Hx; apply ravel_lt; exact Hr).
  rewrite (unravel_ravel _ _ Hr). apply wcount_child.
Qed.

Lemma cnt_unseen cols rows child x ps a :
  (forall rw, In rw rows -> agreesb cols ps a (fst rw) = true -> snd rw = 0) ->
  cnt_xp cols rows child x ps a = 0.
Proof.
  intros H. unfold cnt_xp. rewrite sumQ_filter.
  rewrite (sumQ_map_ext _ (fun _ => 0)); [apply sumQ_map_zero|].
  intros rw Hrw. destruct (val cols (fst rw) child =? x)%nat; cbn [andb]; [|reflexivity].
  destruct (agreesb cols ps a (fst rw)) eqn:E; [apply H; assumption|reflexivity].
Qed.

(* unweighted frames: the count is the NUMBER of rows *)
Lemma cnt_xp_unweighted cols rows child x ps a :
  cnt_xp cols (unweighted rows) child x ps a =
  Qc_of_nat (length (filter (fun r => (val cols r child =? x)%nat && agreesb cols ps a r) rows)).
Proof.
  unfold cnt_xp, unweighted. induction rows as [|r rows IH]; cbn [map filter fst]; [symmetry; apply Qc_of_nat_0|].
  destruct ((val cols r child =? x)%nat && agreesb cols ps a r); cbn [map snd sumQ fold_right length].
  - fold (sumQ (map snd (filter (fun rw => (val cols (fst rw) child =? x)%nat && agreesb cols ps a (fst rw))
                               (map (fun r => (r, 1)) rows)))).
    rewrite IH, Qc_of_nat_S. ring.
  - exact IH.
Qed.

(* marginal: summing the child out of count(x, pi) gives count(pi) *)
Lemma cnt_marginal card cols rows child ps a :
  child_in_range card cols rows child ->
  sumQ (map (fun x => cnt_xp cols rows child x ps a) (seq 0 (card child))) = cnt_p cols rows ps a.
Proof.
  intros Hc. unfold cnt_xp, cnt_p.
  rewrite (sumQ_map_ext _ (fun x => sumQ (map (fun rw => if (val cols (fst rw) child =? x)%nat && agreesb cols ps a (fst rw)
                                                         then snd rw else 0) rows)))
    by (intros x _; apply sumQ_filter).
  rewrite sumQ_swap. rewrite sumQ_filter. apply sumQ_map_ext. intros rw Hrw.
  destruct (agreesb cols ps a (fst rw)).
  - rewrite (sumQ_map_ext _ (fun x => if (val cols (fst rw) child =? x)%nat then snd rw else 0))
      by (intros x _; rewrite andb_true_r; reflexivity).
    apply sum_indicator_seq. specialize (Hc rw Hrw). lia.
  - rewrite (sumQ_map_ext _ (fun _ => 0)) by (intros x _; rewrite andb_false_r; reflexivity).
    apply sumQ_map_zero.
Qed.

Lemma colsum_counts card cols rows child ps a :
  child_in_range card cols rows child -> in_states card ps a ->
  colsum (state_counts card cols rows child ps) (ravel (map card ps) (map a ps)) = cnt_p cols rows ps a.
Proof.
  intros Hc Ha. pose proof (in_states_in_range _ _ _ Ha) as Hr.
  unfold colsum, state_counts. rewrite column_tbuild by (apply ravel_lt; exact Hr).
  rewrite (unravel_ravel _ _ Hr).
  rewrite (sumQ_map_ext _ (fun x => cnt_xp cols rows child x ps a)) by (intros x _; apply wcount_child).
  apply cnt_marginal. exact Hc.
Qed.

(* ------------------------------------------------------------------ sorting / permutations of the parents *)
Lemma insert_comm x y l : insert x (insert y l) = insert y (insert x l).
Proof.
  induction l as [|h t IH]; cbn [insert];
    repeat (match goal with |- context [(?a <=? ?b)%nat] => destruct (Nat.leb_spec a b) end; cbn [insert]);
    try reflexivity; try lia; try (assert (x = y) by lia; subst; reflexivity).
  rewrite IH. reflexivity.
Qed.

Lemma sort_vars_perm_eq l l' : Permutation l l' -> sort_vars l = sort_vars l'.
Proof.
  induction 1; simpl.
  - reflexivity.
  - unfold sort_vars in *. simpl. rewrite IHPermutation. reflexivity.
  - apply insert_comm.
  - congruence.
Qed.

Lemma insert_perm x l : Permutation (insert x l) (x :: l).
Proof.
  induction l as [|h t IH]; simpl; [apply Permutation_refl|].
  destruct (x <=? h)%nat; [apply Permutation_refl|].
  eapply perm_trans; [apply perm_skip; exact IH|apply perm_swap].
Qed.

Lemma sort_vars_perm l : Permutation (sort_vars l) l.
Proof.
  induction l as [|x l IH]; simpl; [constructor|].
  eapply perm_trans; [apply insert_perm|]. apply perm_skip. exact IH.
Qed.

Lemma forallb_perm {A} (f : A -> bool) l l' : Permutation l l' -> forallb f l = forallb f l'.
Proof.
  induction 1; simpl; try congruence.
  destruct (f x), (f y); reflexivity.
Qed.

Lemma agreesb_perm cols vs vs' a r : Permutation vs vs' -> agreesb cols vs a r = agreesb cols vs' a r.
Proof. apply forallb_perm. Qed.

Lemma cnt_p_perm cols rows vs vs' a : Permutation vs vs' -> cnt_p cols rows vs a = cnt_p cols rows vs' a.
Proof. intros H. unfold cnt_p. f_equal. f_equal. apply filter_ext. intros rw. apply agreesb_perm. exact H. Qed.

Lemma cnt_xp_perm cols rows child x vs vs' a :
  Permutation vs vs' -> cnt_xp cols rows child x vs a = cnt_xp cols rows child x vs' a.
Proof.
  intros H. unfold cnt_xp. f_equal. f_equal. apply filter_ext. intros rw. f_equal. apply agreesb_perm. exact H.
Qed.

Lemma in_states_perm card vs vs' a : Permutation vs vs' -> in_states card vs a -> in_states card vs' a.
Proof. intros H Ha v Hv. apply Ha. eapply Permutation_in; [apply Permutation_sym; exact H|exact Hv]. Qed.
