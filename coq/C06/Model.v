(* C06 model: pgmpy parameter learning as coded (after fix 5aac298 for fit_update).
     pgmpy/estimators/base.py   BaseEstimator.state_counts, ParameterEstimator.state_counts
     pgmpy/estimators/MLE.py    MaximumLikelihoodEstimator.estimate_cpd
     pgmpy/estimators/BayesianEstimator.py  estimate_cpd (K2 / BDeu / dirichlet)
     pgmpy/models/BayesianNetwork.py        fit_update
     pgmpy/estimators/EM.py     one iteration: _compute_weights (E-step) + weighted MLE (M-step)
   Executable definitions only.

   Conventions.  Variables are nat identifiers; the harness interns names so that the order of the
   identifiers is Python's order of the names (pgmpy calls sorted() on parent names).  A state is its
   index in the variable's declared state list (state_names[var]); [card v] is the length of that list.
   A data frame is a list of column names plus rows of state indices (positional), each row with a
   weight in Qc (the `_weight` column; 1 when unweighted).  A table is a list of rows (child states)
   of lists (columns = parent configurations, row-major product of the parents' states in the order
   the parents are listed: pandas MultiIndex.from_product / numpy C order). *)
From Coq Require Import List Bool Arith PeanoNat ZArith QArith Qcanon.
From PV Require Import Base.Ravel.
Import ListNotations.
Open Scope Qc_scope.

Definition var := nat.

(* ---------------------------------------------------------------- small primitives *)
(* Python sorted() on the parent names *)
Fixpoint insert (x : nat) (l : list nat) : list nat :=
  match l with
  | [] => [x]
  | h :: t => if (x <=? h)%nat then x :: h :: t else h :: insert x t
  end.
Definition sort_vars (l : list var) : list var := fold_right insert [] l.

Fixpoint assoc (v : nat) (l : list (nat * nat)) : option nat :=
  match l with
  | [] => None
  | (k, x) :: r => if (k =? v)%nat then Some x else assoc v r
  end.
(* value of column v in a positional row; a missing column is excluded by [fam_in_cols] below *)
Definition val (cols : list var) (r : list nat) (v : var) : nat :=
  match assoc v (combine cols r) with Some s => s | None => O end.

Fixpoint list_eqb (a b : list nat) : bool :=
  match a, b with
  | [], [] => true
  | x :: a', y :: b' => (x =? y)%nat && list_eqb a' b'
  | _, _ => false
  end.

Definition sumQ (l : list Qc) : Qc := fold_right Qcplus 0 l.
Definition Qc_eqb (a b : Qc) : bool := if Qc_eq_dec a b then true else false.
Definition Qc_of_nat (n : nat) : Qc := Q2Qc (inject_Z (Z.of_nat n)).

Definition table (A : Type) := list (list A).
Definition tbuild {A} (r q : nat) (f : nat -> nat -> A) : table A :=
  map (fun x => map (fun j => f x j) (seq 0 q)) (seq 0 r).
Definition tget {A} (d : A) (T : table A) (x j : nat) : A := nth j (nth x T []) d.

(* ---------------------------------------------------------------- state counts *)
Definition wrow : Type := (list nat * Qc)%type.

(* the row has states ss for the variables vs *)
Definition row_matches (cols : list var) (vs : list var) (ss : list nat) (r : list nat) : bool :=
  list_eqb (map (val cols r) vs) ss.

(* groupby(vs).size() / ["_weight"].sum() read at one key; fillna(0) for an absent key *)
Definition wcount (cols : list var) (rows : list wrow) (vs : list var) (ss : list nat) : Qc :=
  sumQ (map snd (filter (fun rw => row_matches cols vs ss (fst rw)) rows)).

(* BaseEstimator.state_counts(variable, parents=ps, reindex=True): index = declared states of the child,
   columns = MultiIndex.from_product(declared states of ps) *)
Definition state_counts (card : var -> nat) (cols : list var) (rows : list wrow)
           (child : var) (ps : list var) : table Qc :=
  let pc := map card ps in
  tbuild (card child) (prod pc) (fun x j => wcount cols rows (child :: ps) (x :: unravel pc j)).

(* ---------------------------------------------------------------- MLE *)
Definition column {A} (d : A) (T : table A) (j : nat) : list A := map (fun row => nth j row d) T.
Definition colsum (T : table Qc) (j : nat) : Qc := sumQ (column 0 T j).
Definition col_all_zero (T : table Qc) (j : nat) : bool := forallb (fun c => Qc_eqb c 0) (column 0 T j).

(* state_counts.iloc[:, (state_counts.values == 0).all(axis=0)] = 1.0 *)
Definition fill_uniform (r q : nat) (T : table Qc) : table Qc :=
  tbuild r q (fun x j => if col_all_zero T j then 1 else tget 0 T x j).

(* numpy x / s : None stands for a non-finite result (0/0 = nan, x/0 = inf) *)
Definition qdiv (x s : Qc) : option Qc := if Qc_eq_dec s 0 then None else Some (x / s).

(* TabularCPD.normalize: cpd / cpd.sum(axis=0) *)
Definition normalize (r q : nat) (T : table Qc) : table (option Qc) :=
  tbuild r q (fun x j => qdiv (tget 0 T x j) (colsum T j)).

(* MaximumLikelihoodEstimator.estimate_cpd(node): gparents = model.get_parents(node) in any order *)
Definition mle_cpd (card : var -> nat) (cols : list var) (rows : list wrow)
           (child : var) (gparents : list var) : table (option Qc) :=
  let ps := sort_vars gparents in
  let r := card child in
  let q := prod (map card ps) in
  normalize r q (fill_uniform r q (state_counts card cols rows child ps)).

(* ---------------------------------------------------------------- Bayesian estimator *)
Inductive prior :=
| K2
| BDeu (ess : Qc)
| DirichletScalar (c : Qc)
| Dirichlet (pc : table Qc).

Definition shape_ok {A} (r q : nat) (P : table A) : bool :=
  (length P =? r)%nat && forallb (fun row => (length row =? q)%nat) P.

(* the pseudo_counts array of estimate_cpd; None = ValueError (shape mismatch) *)
Definition pseudo_counts (r q : nat) (pr : prior) : option (table Qc) :=
  match pr with
  | K2 => Some (tbuild r q (fun _ _ => 1))
  | BDeu ess => Some (tbuild r q (fun _ _ => ess / (Qc_of_nat r * Qc_of_nat q)))
  | DirichletScalar c => Some (tbuild r q (fun _ _ => c))
  | Dirichlet P => if shape_ok r q P then Some P else None
  end.

(* state_counts + pseudo_counts : DataFrame + ndarray adds positionally *)
Definition tadd (r q : nat) (T P : table Qc) : table Qc :=
  tbuild r q (fun x j => tget 0 T x j + tget 0 P x j).

Definition bayes_cpd (card : var -> nat) (cols : list var) (rows : list wrow)
           (child : var) (gparents : list var) (pr : prior) : option (table (option Qc)) :=
  let ps := sort_vars gparents in
  let r := card child in
  let q := prod (map card ps) in
  match pseudo_counts r q pr with
  | None => None
  | Some P => Some (normalize r q (tadd r q (state_counts card cols rows child ps) P))
  end.

(* ---------------------------------------------------------------- fit_update *)
(* an existing TabularCPD: variable, evidence in ITS OWN order, get_values() in that order *)
Record cpd := { c_var : var; c_parents : list var; c_table : table Qc }.

(* value of the CPD at a named assignment: TabularCPD.get_value with keyword arguments *)
Definition cpd_value (card : var -> nat) (c : cpd) (a : var -> nat) : Qc :=
  tget 0 (c_table c) (a (c_var c)) (ravel (map card (c_parents c)) (map a (c_parents c))).

(* TabularCPD.reorder_parents(new_order, inplace=False): transpose of the value tensor, reshaped to 2-D:
   column j of the result is the configuration unravel(cards of new_order, j), read in the old layout *)
Definition reorder_parents (card : var -> nat) (c : cpd) (new_order : list var) : table Qc :=
  let ncs := map card new_order in
  tbuild (card (c_var c)) (prod ncs) (fun x j =>
    let pi := unravel ncs j in
    tget 0 (c_table c) x
         (ravel (map card (c_parents c))
                (map (fun p => match assoc p (combine new_order pi) with Some s => s | None => O end)
                     (c_parents c)))).

Definition tscale (n : Qc) (T : table Qc) : table Qc := map (map (Qcmult n)) T.

(* BayesianNetwork.fit_update for one variable: pseudo_counts = existing CPD (columns brought to the
   sorted parent order) * n_prev_samples, then BayesianEstimator with prior_type="dirichlet" *)
Definition fit_update_cpd (card : var -> nat) (cols : list var) (rows : list wrow)
           (gparents : list var) (prev : cpd) (n_prev : Qc) : option (table (option Qc)) :=
  let sp := sort_vars (c_parents prev) in
  let vals := if list_eqb sp (c_parents prev) then c_table prev else reorder_parents card prev sp in
  bayes_cpd card cols rows (c_var prev) gparents (Dirichlet (tscale n_prev vals)).

(* the literal pre-5aac298 code, kept to exhibit defect D4 (Props: C06_fit_update_presort_refuted) *)
Definition fit_update_cpd_unsorted (card : var -> nat) (cols : list var) (rows : list wrow)
           (gparents : list var) (prev : cpd) (n_prev : Qc) : option (table (option Qc)) :=
  bayes_cpd card cols rows (c_var prev) gparents (Dirichlet (tscale n_prev (c_table prev))).

(* ---------------------------------------------------------------- EM, one iteration *)
Definition Qcmax (a b : Qc) : Qc := if Qclt_le_dec a b then b else a.

(* e ** _get_log_likelihood(datapoint) = prod over CPDs of max(cpd.get_value(...), clamp) *)
Definition joint_clamped (card : var -> nat) (cpds : list cpd) (clamp : Qc) (a : var -> nat) : Qc :=
  fold_right (fun c acc => Qcmax (cpd_value card c a) clamp * acc) 1 cpds.

Definition rows_dec : forall a b : list nat, {a = b} + {a <> b} := list_eq_dec Nat.eq_dec.

(* data.drop_duplicates(): first occurrences, in order *)
Fixpoint uniq_first (l : list (list nat)) : list (list nat) :=
  match l with
  | [] => []
  | x :: r => x :: remove rows_dec x (uniq_first r)
  end.

(* itertools.product over range(card) for each latent cardinality *)
Definition completions (lc : list nat) : list (list nat) := map (unravel lc) (seq 0 (prod lc)).

(* _compute_weights: each distinct row u is expanded with every latent completion c; its weight is
   likelihood(u,c) / sum over completions * (number of occurrences of u).
   pgmpy splits the distinct rows into batches of `batch_size` (one joblib job per batch, offsets
   0, batch_size, 2*batch_size, ... < number of distinct rows) and concatenates the results.  The model has
   NO batching: batching is a partition of the distinct rows, so it must not change the result -- every
   distinct row, including those of a last partial batch, is expanded exactly once.  The harness runs pgmpy
   with batch_size 1, 2, 3, 4, 7 and the default against this un-batched definition. *)
Definition e_step (card : var -> nat) (cols : list var) (rows : list (list nat)) (lats : list var)
           (cpds : list cpd) (clamp : Qc) : list wrow :=
  let lc := completions (map card lats) in
  flat_map (fun u =>
      let lik := fun c => joint_clamped card cpds clamp (val (cols ++ lats) (u ++ c)) in
      let s := sumQ (map lik lc) in
      map (fun c => (u ++ c, lik c / s * Qc_of_nat (count_occ rows_dec rows u))) lc)
    (uniq_first rows).

(* M-step for one variable: mle.estimate_cpd(var, weighted=True) on the expanded frame *)
Definition m_step (card : var -> nat) (cols : list var) (rows : list (list nat)) (lats : list var)
           (cpds : list cpd) (clamp : Qc) (child : var) (gparents : list var) : table (option Qc) :=
  mle_cpd card (cols ++ lats) (e_step card cols rows lats cpds clamp) child gparents.

(* ---------------------------------------------------------------- which nodes are estimated *)
(* get_parameters loops over self.model.nodes().  BayesianEstimator.__init__ and DAG.fit (on a plain DAG)
   rebuild the network as BayesianNetwork(model.edges()) -- only the nodes that occur in an edge -- and then
   (fix: commits cccea0b, aa23a9c) add_nodes_from(model.nodes()) re-adds every node of the original model.
   The result is a node SET (networkx adjacency dict): edge endpoints first, then the remaining nodes.
   [rebuilt] = the estimator is BayesianEstimator or the entry point is DAG.fit of a plain DAG. *)
Definition memv (v : var) (l : list var) : bool := existsb (Nat.eqb v) l.
Fixpoint add_nodes (acc : list var) (vs : list var) : list var :=
  match vs with
  | [] => acc
  | v :: r => add_nodes (if memv v acc then acc else acc ++ [v]) r
  end.
Definition edge_nodes (edges : list (var * var)) : list var :=
  add_nodes [] (flat_map (fun e => [fst e; snd e]) edges).
Definition estimated_nodes (rebuilt : bool) (nodes : list var) (edges : list (var * var)) : list var :=
  if rebuilt then add_nodes (edge_nodes edges) nodes else nodes.
(* the pre-cccea0b / pre-aa23a9c behaviour (isolated nodes dropped), kept for C06_every_node_prefix_refuted *)
Definition estimated_nodes_prefix (nodes : list var) (edges : list (var * var)) : list var :=
  filter (fun v => memv v (edge_nodes edges)) nodes.

(* ---------------------------------------------------------------- input guards (pgmpy raises otherwise) *)
(* every node of the family is a data column *)
Definition fam_in_cols (cols : list var) (fam : list var) : bool := forallb (fun v => memv v cols) fam.
(* every cell is a declared state ("Data contains unexpected states" otherwise) and rows are positional *)
Definition row_ok (card : var -> nat) (cols : list var) (r : list nat) : bool :=
  (length r =? length cols)%nat && forallb (fun v => (val cols r v <? card v)%nat) cols.
Definition frame_ok (card : var -> nat) (cols : list var) (rows : list wrow) : bool :=
  forallb (fun rw => row_ok card cols (fst rw)) rows.
Definition unweighted (rows : list (list nat)) : list wrow := map (fun r => (r, 1)) rows.
