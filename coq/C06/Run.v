(* C06 entry points for the extracted driver: sx -> sx *)
From Coq Require Import List Bool Arith ZArith QArith Qcanon.
From PV Require Import Base.Sx Base.Ravel C06.Model.
Import ListNotations.

Definition card_of (cards : list nat) (v : var) : nat := nth v cards O.

Definition sx_wrow : sx -> option wrow := sx_pair (sx_list sx_nat) sx_Qc.
Definition sx_node : sx -> option (var * list var) := sx_pair sx_nat (sx_list sx_nat).
Definition sx_table : sx -> option (table Qc) := sx_list (sx_list sx_Qc).
Definition sx_cpd (s : sx) : option cpd :=
  match sx_triple sx_nat (sx_list sx_nat) sx_table s with
  | Some (v, ps, T) => Some {| c_var := v; c_parents := ps; c_table := T |}
  | None => None
  end.

(* a fitted CPD by named parent configuration: [sorted parents; [[configuration; column]...]] *)
Definition named_cpd (cards : list nat) (child : var) (gparents : list var) (T : table (option Qc)) : sx :=
  let ps := sort_vars gparents in
  let pc := map (card_of cards) ps in
  SL [ of_list of_nat ps;
       of_list (fun j => SL [ of_list of_nat (unravel pc j);
                              of_list (of_option of_Qc) (column None T j) ])
               (seq 0 (prod pc)) ].

Definition sx_prior (s : sx) : option (nat * option Qc * list (table Qc)) :=
  match s with
  | SL [SZ k] => Some (Z.to_nat k, None, [])
  | SL [SZ k; SL [SZ n; SZ d]] =>
      match sx_Qc (SL [SZ n; SZ d]) with Some q => Some (Z.to_nat k, Some q, []) | None => None end
  | SL [SZ k; SL l] =>
      match traverse sx_table l with Some ts => Some (Z.to_nat k, None, ts) | None => None end
  | _ => None
  end.

Fixpoint all_some {A} (l : list (option A)) : option (list A) :=
  match l with
  | [] => Some []
  | Some x :: r => match all_some r with Some xs => Some (x :: xs) | None => None end
  | None :: _ => None
  end.

(* [cards cols rows nodes prior]; prior = [0] MLE | [1] K2 | [2 ess] BDeu | [3 c] scalar dirichlet |
   [4 [table per node]] dirichlet.
   errors: 1 node missing from the data, 2 undeclared state / ragged row, 3 pseudo_counts shape *)
Definition run_c06_fit (s : sx) : sx :=
  match s with
  | SL [sc; scol; srows; snodes; spr] =>
      match sx_list sx_nat sc, sx_list sx_nat scol, sx_list sx_wrow srows, sx_list sx_node snodes, sx_prior spr with
      | Some cards, Some cols, Some rows, Some nodes, Some (k, oq, ts) =>
          let card := card_of cards in
          if negb (forallb (fun nd => fam_in_cols cols (fst nd :: snd nd)) nodes) then sx_err 1
          else if negb (frame_ok card cols rows) then sx_err 2
          else
            let fit1 (i : nat) (nd : var * list var) : option (table (option Qc)) :=
              let (child, gp) := nd in
              match k, oq with
              | O, _ => Some (mle_cpd card cols rows child gp)
              | 1%nat, _ => bayes_cpd card cols rows child gp K2
              | 2%nat, Some e => bayes_cpd card cols rows child gp (BDeu e)
              | 3%nat, Some c => bayes_cpd card cols rows child gp (DirichletScalar c)
              | 4%nat, _ => bayes_cpd card cols rows child gp (Dirichlet (nth i ts []))
              | _, _ => None
              end in
            match all_some (map (fun p => fit1 (fst p) (snd p)) (combine (seq 0 (length nodes)) nodes)) with
            | None => sx_err 3
            | Some Ts => sx_ok (SL (map (fun p => named_cpd cards (fst (fst p)) (snd (fst p)) (snd p))
                                        (combine nodes Ts)))
            end
      | _, _, _, _, _ => bad_request
      end
  | _ => bad_request
  end.

(* [cards cols rows nodes prev_cpds n_prev]  (prev_cpds aligned with nodes) *)
Definition run_c06_fit_update (s : sx) : sx :=
  match s with
  | SL [sc; scol; srows; snodes; sprev; sn] =>
      match sx_list sx_nat sc, sx_list sx_nat scol, sx_list sx_wrow srows, sx_list sx_node snodes,
            sx_list sx_cpd sprev, sx_Qc sn with
      | Some cards, Some cols, Some rows, Some nodes, Some prevs, Some n =>
          let card := card_of cards in
          if negb (forallb (fun nd => fam_in_cols cols (fst nd :: snd nd)) nodes) then sx_err 1
          else if negb (frame_ok card cols rows) then sx_err 2
          else
            match all_some (map (fun p => fit_update_cpd card cols rows (snd (fst p)) (snd p) n)
                                (combine nodes prevs)) with
            | None => sx_err 3
            | Some Ts => sx_ok (SL (map (fun p => named_cpd cards (fst (fst p)) (snd (fst p)) (snd p))
                                        (combine nodes Ts)))
            end
      | _, _, _, _, _, _ => bad_request
      end
  | _ => bad_request
  end.

(* the pre-fix fit_update (defect D4), used by the harness only to diagnose a regression *)
Definition run_c06_fit_update_unsorted (s : sx) : sx :=
  match s with
  | SL [sc; scol; srows; snodes; sprev; sn] =>
      match sx_list sx_nat sc, sx_list sx_nat scol, sx_list sx_wrow srows, sx_list sx_node snodes,
            sx_list sx_cpd sprev, sx_Qc sn with
      | Some cards, Some cols, Some rows, Some nodes, Some prevs, Some n =>
          let card := card_of cards in
          match all_some (map (fun p => fit_update_cpd_unsorted card cols rows (snd (fst p)) (snd p) n)
                              (combine nodes prevs)) with
          | None => sx_err 3
          | Some Ts => sx_ok (SL (map (fun p => named_cpd cards (fst (fst p)) (snd (fst p)) (snd p))
                                      (combine nodes Ts)))
          end
      | _, _, _, _, _, _ => bad_request
      end
  | _ => bad_request
  end.

(* one EM iteration: [cards cols rows lats cpds clamp nodes] -> [[expanded rows with weights]; [M-step CPDs of nodes]] *)
Definition run_c06_em_iter (s : sx) : sx :=
  match s with
  | SL [sc; scol; srows; slat; scpds; scl; snodes] =>
      match sx_list sx_nat sc, sx_list sx_nat scol, sx_list (sx_list sx_nat) srows, sx_list sx_nat slat,
            sx_list sx_cpd scpds, sx_Qc scl, sx_list sx_node snodes with
      | Some cards, Some cols, Some rows, Some lats, Some cpds, Some clamp, Some nodes =>
          let card := card_of cards in
          if negb (frame_ok card cols (unweighted rows)) then sx_err 2
          else
            let ex := e_step card cols rows lats cpds clamp in
            sx_ok (SL [ of_list (of_pair (of_list of_nat) of_Qc) ex;
                        SL (map (fun nd => named_cpd cards (fst nd) (snd nd)
                                             (mle_cpd card (cols ++ lats) ex (fst nd) (snd nd))) nodes) ])
      | _, _, _, _, _, _, _ => bad_request
      end
  | _ => bad_request
  end.

(* [rebuilt nodes edges] -> nodes that get a CPD *)
Definition run_c06_estimated_nodes (s : sx) : sx :=
  match s with
  | SL [sb; sn; se] =>
      match sx_bool sb, sx_list sx_nat sn, sx_list (sx_pair sx_nat sx_nat) se with
      | Some b, Some ns, Some es => sx_ok (of_list of_nat (estimated_nodes b ns es))
      | _, _, _ => bad_request
      end
  | _ => bad_request
  end.

(* ParameterEstimator.state_counts(node, weighted): [cards cols rows child gparents] -> named count table *)
Definition run_c06_counts (s : sx) : sx :=
  match s with
  | SL [sc; scol; srows; sch; sgp] =>
      match sx_list sx_nat sc, sx_list sx_nat scol, sx_list sx_wrow srows, sx_nat sch, sx_list sx_nat sgp with
      | Some cards, Some cols, Some rows, Some child, Some gp =>
          let card := card_of cards in
          if negb (fam_in_cols cols (child :: gp)) then sx_err 1
          else if negb (frame_ok card cols rows) then sx_err 2
          else sx_ok (named_cpd cards child gp
                        (map (map Some) (state_counts card cols rows child (sort_vars gp))))
      | _, _, _, _, _ => bad_request
      end
  | _ => bad_request
  end.
