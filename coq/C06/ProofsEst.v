(* C06: estimators (MLE, Bayesian, fit_update), normalisation, invariances *)
From Coq Require Import List Bool Arith PeanoNat ZArith QArith Qcanon Lia Permutation.
From PV Require Import Base.Ravel C06.Model C06.Spec C06.Proofs.
Import ListNotations.
Open Scope Qc_scope.

Lemma Qc_eqb_true a b : Qc_eqb a b = true -> a = b.
Proof. unfold Qc_eqb. destruct (Qc_eq_dec a b); [auto|discriminate]. Qed.

Lemma col_all_zero_sum T j : col_all_zero T j = true -> colsum T j = 0.
Proof.
  unfold col_all_zero, colsum. intros H.
  induction (column 0 T j) as [|c l IH]; simpl in *; [reflexivity|].
  apply andb_true_iff in H. destruct H as [H1 H2]. apply Qc_eqb_true in H1. rewrite H1, IH by exact H2. ring.
Qed.

Lemma col_all_zero_intro T j : (forall c, In c (column 0 T j) -> c = 0) -> col_all_zero T j = true.
Proof.
  intros H. unfold col_all_zero. apply forallb_forall. intros c Hc. rewrite (H c Hc).
  unfold Qc_eqb. destruct (Qc_eq_dec 0 0); [reflexivity|congruence].
Qed.

(* ------------------------------------------------------------------ normalisation *)
Lemma normalize_cell r q f x j : (x < r)%nat -> (j < q)%nat ->
  tget None (normalize r q (tbuild r q f)) x j = qdiv (f x j) (sumQ (map (fun x' => f x' j) (seq 0 r))).
Proof.
  intros Hx Hj. unfold normalize. rewrite tget_tbuild by assumption.
  rewrite tget_tbuild by assumption. unfold colsum. rewrite column_tbuild by exact Hj. reflexivity.
Qed.

Lemma normalize_column_distribution r q f j : (j < q)%nat ->
  sumQ (map (fun x => f x j) (seq 0 r)) <> 0 ->
  col_is_distribution (normalize r q (tbuild r q f)) j.
Proof.
  intros Hj Hs. set (s := sumQ (map (fun x => f x j) (seq 0 r))) in *.
  exists (map (fun x => f x j / s) (seq 0 r)). split.
  - unfold normalize. rewrite column_tbuild by exact Hj. rewrite map_map. apply map_ext_in. intros x Hx.
    apply in_seq in Hx. rewrite tget_tbuild by (try exact Hj; lia).
    unfold colsum. rewrite column_tbuild by exact Hj. fold s. unfold qdiv.
    destruct (Qc_eq_dec s 0); [contradiction|reflexivity].
  - rewrite sumQ_map_div. fold s. field. exact Hs.
Qed.

(* ------------------------------------------------------------------ MLE *)
Section MLE.
Variable card : var -> nat.
Variables (cols : list var) (rows : list wrow) (child : var) (gp : list var).
Let ps := sort_vars gp.
Let r := card child.
Let q := prod (map card ps).
Let C := state_counts card cols rows child ps.

Lemma mle_unfold : mle_cpd card cols rows child gp =
  normalize r q (tbuild r q (fun x j => if col_all_zero C j then 1 else tget 0 C x j)).
Proof. reflexivity. Qed.

Lemma C_cell x j : (x < r)%nat -> (j < q)%nat ->
  tget 0 C x j = wcount cols rows (child :: ps) (x :: unravel (map card ps) j).
Proof. intros Hx Hj. unfold C, state_counts. rewrite tget_tbuild by assumption. reflexivity. Qed.

Lemma C_column j : (j < q)%nat -> column 0 C j = map (fun x => tget 0 C x j) (seq 0 r).
Proof.
  intros Hj. unfold C, state_counts. rewrite column_tbuild by exact Hj.
  apply map_ext_in. intros x Hx. apply in_seq in Hx. rewrite tget_tbuild by (try exact Hj; lia). reflexivity.
Qed.

Lemma mle_closed_form x a :
  child_in_range card cols rows child -> (x < r)%nat -> in_states card gp a ->
  cnt_p cols rows gp a <> 0 ->
  named_get None card ps (mle_cpd card cols rows child gp) x a
  = Some (cnt_xp cols rows child x gp a / cnt_p cols rows gp a).
Proof.
  intros Hc Hx Ha Hn.
  assert (Hps : Permutation gp ps) by (apply Permutation_sym, sort_vars_perm).
  assert (Ha' : in_states card ps a) by (eapply in_states_perm; eassumption).
  pose proof (in_states_in_range _ _ _ Ha') as Hr. pose proof (ravel_lt _ _ Hr) as Hj. fold q in Hj.
  rewrite (cnt_p_perm _ _ _ _ a Hps) in *. rewrite (cnt_xp_perm _ _ _ _ _ _ a Hps).
  set (j := ravel (map card ps) (map a ps)) in *.
  assert (Hcs : colsum C j = cnt_p cols rows ps a) by (apply colsum_counts; assumption).
  assert (Hz : col_all_zero C j = false).
  { destruct (col_all_zero C j) eqn:E; [|reflexivity]. apply col_all_zero_sum in E. congruence. }
  unfold named_get. fold j. rewrite mle_unfold, normalize_cell by assumption. rewrite Hz.
  cbv beta iota.
  replace (sumQ (map (fun x' => tget 0 C x' j) (seq 0 r))) with (colsum C j)
    by (unfold colsum; rewrite C_column by exact Hj; reflexivity).
  rewrite Hcs. unfold qdiv. destruct (Qc_eq_dec (cnt_p cols rows ps a) 0); [contradiction|].
  f_equal. f_equal. apply (counts_cell card cols rows child ps x a Hx Ha').
Qed.

Lemma mle_uniform_unseen x a :
  (x < r)%nat -> in_states card gp a ->
  (forall rw, In rw rows -> agreesb cols gp a (fst rw) = true -> snd rw = 0) ->
  named_get None card ps (mle_cpd card cols rows child gp) x a = Some (1 / Qc_of_nat r).
Proof.
  intros Hx Ha Hun.
  assert (Hps : Permutation gp ps) by (apply Permutation_sym, sort_vars_perm).
  assert (Ha' : in_states card ps a) by (eapply in_states_perm; eassumption).
  pose proof (in_states_in_range _ _ _ Ha') as Hr. pose proof (ravel_lt _ _ Hr) as Hj. fold q in Hj.
  set (j := ravel (map card ps) (map a ps)) in *.
  assert (Hz : col_all_zero C j = true).
  { apply col_all_zero_intro. intros c Hc0. rewrite C_column in Hc0 by exact Hj.
    apply in_map_iff in Hc0. destruct Hc0 as [x' [<- Hx']]. apply in_seq in Hx'.
    change (named_get 0 card ps C x' a = 0). unfold C. rewrite counts_cell by (try exact Ha'; lia).
    apply cnt_unseen. intros rw Hrw Hag. apply Hun; [exact Hrw|].
    rewrite (agreesb_perm _ _ _ a (fst rw) Hps). exact Hag. }
  unfold named_get. fold j. rewrite mle_unfold, normalize_cell by assumption. rewrite Hz.
  rewrite sumQ_ones. unfold qdiv.
  destruct (Qc_eq_dec (Qc_of_nat r) 0) as [E|_]; [exfalso; revert E; apply Qc_of_nat_nonzero; lia|reflexivity].
Qed.

Lemma C_nonneg x j : nonneg_weights rows -> (x < r)%nat -> (j < q)%nat -> 0 <= tget 0 C x j.
Proof.
  intros Hw Hx Hj. rewrite C_cell by assumption. unfold wcount. apply sumQ_nonneg.
  intros w Hin. apply in_map_iff in Hin. destruct Hin as [rw [<- Hrw]]. apply filter_In in Hrw. apply Hw, Hrw.
Qed.

(* every fitted column is a distribution, hence the CPD validates *)
Lemma mle_valid : nonneg_weights rows -> (0 < r)%nat -> cpd_valid r q (mle_cpd card cols rows child gp).
Proof.
  intros Hw Hr0. split; [unfold mle_cpd, normalize; apply shape_ok_tbuild|].
  intros j Hj. rewrite mle_unfold. apply normalize_column_distribution; [exact Hj|].
  destruct (col_all_zero C j) eqn:Hz.
  - rewrite sumQ_ones. apply Qc_of_nat_nonzero. exact Hr0.
  - intros Hs. assert (Hall : col_all_zero C j = true); [|congruence].
    apply col_all_zero_intro. rewrite C_column by exact Hj.
    apply sumQ_zero_all; [|exact Hs].
    intros c Hc0. apply in_map_iff in Hc0. destruct Hc0 as [x' [<- Hx']]. apply in_seq in Hx'.
    apply C_nonneg; [exact Hw|lia|exact Hj].
Qed.
End MLE.

(* ------------------------------------------------------------------ Bayesian estimator *)
Section Bayes.
Variable card : var -> nat.
Variables (cols : list var) (rows : list wrow) (child : var) (gp : list var).
Let ps := sort_vars gp.
Let r := card child.
Let q := prod (map card ps).
Let C := state_counts card cols rows child ps.

(* the general closed form, for ANY pseudo-count table P that passed the shape test *)
Lemma bayes_general P x a :
  child_in_range card cols rows child -> (x < r)%nat -> in_states card gp a ->
  let j := ravel (map card ps) (map a ps) in
  named_get None card ps (normalize r q (tadd r q C P)) x a
  = spec_posterior (cnt_xp cols rows child x gp a) (cnt_p cols rows gp a)
                   (tget 0 P x j) (sumQ (map (fun x' => tget 0 P x' j) (seq 0 r))).
Proof.
  intros Hc Hx Ha j.
  assert (Hps : Permutation gp ps) by (apply Permutation_sym, sort_vars_perm).
  assert (Ha' : in_states card ps a) by (eapply in_states_perm; eassumption).
  pose proof (in_states_in_range _ _ _ Ha') as Hr. pose proof (ravel_lt _ _ Hr) as Hj. fold q in Hj. fold j in Hj.
  rewrite (cnt_p_perm _ _ _ _ a Hps). rewrite (cnt_xp_perm _ _ _ _ _ _ a Hps).
  unfold named_get. fold j. unfold tadd. rewrite normalize_cell by assumption.
  unfold spec_posterior. f_equal.
  - f_equal. apply (counts_cell card cols rows child ps x a Hx Ha').
  - rewrite sumQ_map_add. f_equal.
    rewrite <- (colsum_counts card cols rows child ps a Hc Ha'). fold j. fold C.
    unfold colsum. unfold C, state_counts. rewrite column_tbuild by exact Hj.
    apply sumQ_map_ext. intros x' Hx'. apply in_seq in Hx'. rewrite tget_tbuild by (try exact Hj; lia). reflexivity.
Qed.

Lemma const_table_sum (alpha : Qc) j : (j < q)%nat ->
  sumQ (map (fun x' => tget 0 (tbuild r q (fun _ _ => alpha)) x' j) (seq 0 r)) = Qc_of_nat r * alpha.
Proof.
  intros Hj. rewrite (sumQ_map_ext _ (fun _ => alpha * 1)).
  - rewrite sumQ_map_mul_l, sumQ_ones. ring.
  - intros x' Hx'. apply in_seq in Hx'. rewrite tget_tbuild by (try exact Hj; lia). ring.
Qed.

Lemma bayes_uniform_prior pr alpha x a :
  pseudo_counts r q pr = Some (tbuild r q (fun _ _ => alpha)) ->
  child_in_range card cols rows child -> (x < r)%nat -> in_states card gp a ->
  exists T, bayes_cpd card cols rows child gp pr = Some T /\
    named_get None card ps T x a
    = spec_posterior (cnt_xp cols rows child x gp a) (cnt_p cols rows gp a) alpha (Qc_of_nat r * alpha).
Proof.
  intros Hp Hc Hx Ha. unfold bayes_cpd. fold ps r q. rewrite Hp. eexists. split; [reflexivity|].
  fold C. rewrite bayes_general by assumption. cbv zeta.
  assert (Hps : Permutation gp ps) by (apply Permutation_sym, sort_vars_perm).
  assert (Ha' : in_states card ps a) by (eapply in_states_perm; eassumption).
  pose proof (ravel_lt _ _ (in_states_in_range _ _ _ Ha')) as Hj. fold q in Hj.
  rewrite const_table_sum by exact Hj. rewrite tget_tbuild by assumption. reflexivity.
Qed.

Lemma bayes_dirichlet P x a :
  shape_ok r q P = true ->
  child_in_range card cols rows child -> (x < r)%nat -> in_states card gp a ->
  exists T, bayes_cpd card cols rows child gp (Dirichlet P) = Some T /\
    let j := ravel (map card ps) (map a ps) in
    named_get None card ps T x a
    = spec_posterior (cnt_xp cols rows child x gp a) (cnt_p cols rows gp a)
                     (tget 0 P x j) (sumQ (map (fun x' => tget 0 P x' j) (seq 0 r))).
Proof.
  intros Hs Hc Hx Ha. unfold bayes_cpd. fold ps r q. cbn [pseudo_counts]. rewrite Hs.
  eexists. split; [reflexivity|]. fold C. apply bayes_general; assumption.
Qed.

Lemma bayes_valid pr P :
  pseudo_counts r q pr = Some P ->
  (forall j, (j < q)%nat -> sumQ (map (fun x => tget 0 C x j + tget 0 P x j) (seq 0 r)) <> 0) ->
  exists T, bayes_cpd card cols rows child gp pr = Some T /\ cpd_valid r q T.
Proof.
  intros Hp Hnz. unfold bayes_cpd. fold ps r q. rewrite Hp. eexists. split; [reflexivity|].
  split; [unfold normalize; apply shape_ok_tbuild|].
  intros j Hj. unfold tadd. apply normalize_column_distribution; [exact Hj|]. fold C. apply Hnz. exact Hj.
Qed.
End Bayes.

(* ------------------------------------------------------------------ row order *)
Lemma wcount_row_perm cols rows rows' vs ss : Permutation rows rows' -> wcount cols rows vs ss = wcount cols rows' vs ss.
Proof.
  unfold wcount. induction 1; simpl.
  - reflexivity.
  - destruct (row_matches cols vs ss (fst x)); simpl; rewrite IHPermutation; reflexivity.
  - destruct (row_matches cols vs ss (fst x)), (row_matches cols vs ss (fst y)); simpl; ring.
  - congruence.
Qed.

Lemma state_counts_ext card cols rows cols' rows' child ps :
  (forall vs ss, wcount cols rows vs ss = wcount cols' rows' vs ss) ->
  state_counts card cols rows child ps = state_counts card cols' rows' child ps.
Proof. intros H. unfold state_counts. apply tbuild_ext. intros x j. apply H. Qed.

(* ------------------------------------------------------------------ column order *)
Lemma assoc_perm v l l' : NoDup (map fst l) -> Permutation l l' -> assoc v l = assoc v l'.
Proof.
  intros Hnd Hp. induction Hp.
  - reflexivity.
  - destruct x as [k s]. simpl. destruct (k =? v)%nat; [reflexivity|]. apply IHHp. inversion Hnd; assumption.
  - destruct x as [k1 s1], y as [k2 s2]. simpl.
    destruct (Nat.eqb_spec k2 v), (Nat.eqb_spec k1 v); try reflexivity.
    subst. simpl in Hnd. inversion Hnd as [|? ? Hni _]. exfalso. apply Hni. left. reflexivity.
  - rewrite IHHp1 by exact Hnd. apply IHHp2.
    eapply Permutation_NoDup; [apply Permutation_map; exact Hp1|exact Hnd].
Qed.

Lemma combine_keys_nodup (cols : list var) : forall r : list nat, NoDup cols -> NoDup (map fst (combine cols r)).
Proof.
  induction cols as [|c cols IH]; intros [|s r] Hnd; simpl; try constructor.
  - inversion Hnd as [|? ? Hni _]. intros Hin. apply Hni.
    apply in_map_iff in Hin. destruct Hin as [[k s'] [Hk Hin]]. simpl in Hk. subst.
    eapply in_combine_l. exact Hin.
  - apply IH. inversion Hnd; assumption.
Qed.

(* the same data with the columns permuted: each row is the same set of (column, state) pairs *)
Definition same_row_upto_columns (cols cols' : list var) (rw rw' : wrow) : Prop :=
  Permutation (combine cols (fst rw)) (combine cols' (fst rw')) /\ snd rw = snd rw'.

Lemma wcount_col_perm cols cols' rows rows' vs ss :
  NoDup cols -> Forall2 (same_row_upto_columns cols cols') rows rows' ->
  wcount cols rows vs ss = wcount cols' rows' vs ss.
Proof.
  intros Hnd H. unfold wcount. induction H as [|rw rw' rows rows' [Hp Hw] _ IH]; [reflexivity|].
  assert (E : row_matches cols vs ss (fst rw) = row_matches cols' vs ss (fst rw')).
  { unfold row_matches. f_equal. apply map_ext. intros v. unfold val.
    rewrite (assoc_perm v _ _ (combine_keys_nodup cols (fst rw) Hnd) Hp). reflexivity. }
  simpl. rewrite E. destruct (row_matches cols' vs ss (fst rw')); simpl; rewrite ?IH, ?Hw; reflexivity.
Qed.

(* ------------------------------------------------------------------ fit_update *)
Lemma tget_tscale n T x j : tget 0 (tscale n T) x j = n * tget 0 T x j.
Proof.
  unfold tget, tscale.
  replace (nth x (map (map (Qcmult n)) T) []) with (map (Qcmult n) (nth x T []))
    by (symmetry; apply (map_nth (map (Qcmult n)) T [] x)).
  replace 0 with (n * 0) at 1 by ring. apply (map_nth (Qcmult n)).
Qed.

Lemma shape_ok_tscale r q n T : shape_ok r q (tscale n T) = shape_ok r q T.
Proof.
  unfold shape_ok, tscale. rewrite map_length. f_equal.
  induction T as [|row T IH]; simpl; [reflexivity|]. rewrite map_length, IH. reflexivity.
Qed.

Lemma assoc_combine_map (a : var -> nat) p : forall l, In p l -> assoc p (combine l (map a l)) = Some (a p).
Proof.
  induction l as [|h t IH]; intros Hin; [destruct Hin|]. simpl.
  destruct (Nat.eqb_spec h p) as [->|Hne]; [reflexivity|]. apply IH. destruct Hin; [contradiction|assumption].
Qed.

Section FitUpdate.
Variable card : var -> nat.
Variables (cols : list var) (rows : list wrow) (gp : list var) (prev : cpd) (n : Qc).
Let child := c_var prev.
Let eps := c_parents prev.
Let sp := sort_vars eps.
Let r := card child.

(* the prior pseudo-count of fit_update, read at a NAMED configuration, is n_prev times the previous CPD's
   value at that NAMED configuration (in the previous CPD's own parent order) *)
Lemma fit_update_prior_named x a :
  (x < r)%nat -> in_states card eps a ->
  let vals := if list_eqb sp eps then c_table prev else reorder_parents card prev sp in
  tget 0 (tscale n vals) x (ravel (map card sp) (map a sp)) = n * named_get 0 card eps (c_table prev) x a.
Proof.
  intros Hx Ha vals. rewrite tget_tscale. f_equal. unfold vals, named_get.
  destruct (list_eqb sp eps) eqn:E.
  - apply list_eqb_eq in E. rewrite E. reflexivity.
  - assert (Hps : Permutation eps sp) by (apply Permutation_sym, sort_vars_perm).
    assert (Ha' : in_states card sp a) by (eapply in_states_perm; eassumption).
    pose proof (in_states_in_range _ _ _ Ha') as Hr.
    unfold reorder_parents. fold child eps r. rewrite tget_tbuild by (try exact Hx; apply ravel_lt; exact Hr).
    rewrite (unravel_ravel _ _ Hr). f_equal. f_equal. apply map_ext_in. intros p Hp.
    rewrite assoc_combine_map; [reflexivity|]. eapply Permutation_in; eassumption.
Qed.

Lemma fit_update_closed_form x a :
  Permutation gp eps ->
  shape_ok r (prod (map card eps)) (c_table prev) = true ->
  child_in_range card cols rows child -> (x < r)%nat -> in_states card gp a ->
  exists T, fit_update_cpd card cols rows gp prev n = Some T /\
    named_get None card (sort_vars gp) T x a
    = spec_posterior (cnt_xp cols rows child x gp a) (cnt_p cols rows gp a)
                     (n * named_get 0 card eps (c_table prev) x a)
                     (sumQ (map (fun x' => n * named_get 0 card eps (c_table prev) x' a) (seq 0 r))).
Proof.
  intros Hperm Hshape Hc Hx Ha.
  assert (Hsg : sort_vars gp = sp) by (apply sort_vars_perm_eq; exact Hperm).
  assert (Hae : in_states card eps a) by (eapply in_states_perm; eassumption).
  unfold fit_update_cpd. fold eps sp child.
  set (vals := if list_eqb sp eps then c_table prev else reorder_parents card prev sp).
  assert (Hsh : shape_ok r (prod (map card (sort_vars gp))) (tscale n vals) = true).
  { rewrite shape_ok_tscale, Hsg. unfold vals. destruct (list_eqb sp eps) eqn:E.
    - apply list_eqb_eq in E. rewrite E. exact Hshape.
    - unfold reorder_parents. apply shape_ok_tbuild. }
  destruct (bayes_dirichlet card cols rows child gp (tscale n vals) x a Hsh Hc Hx Ha) as [T [HT Hv]].
  exists T. split; [exact HT|]. cbv zeta in Hv. rewrite Hv. rewrite Hsg.
  unfold vals. rewrite (fit_update_prior_named x a Hx Hae). f_equal.
  apply sumQ_map_ext. intros x' Hx'. apply in_seq in Hx'.
  apply (fit_update_prior_named x' a); [lia|exact Hae].
Qed.
End FitUpdate.
