(* C06, EM ascent over the real numbers (abstract, finite, no measure theory).

   "EM with latent variables never decreases the observed-data likelihood from one iteration to the next."

   Setting (Section EM below).  A discrete model with finitely many PARAMETER GROUPS g (a group is a pair
   (node, parent configuration): one column of one CPD) each with finitely many CELLS k (the states of the
   node); a parameter th assigns a real th g k to each cell.  A COMPLETE configuration c uses cell (g,k)
   [n g k c] times (0 or 1 for a Bayesian network; any natural number is allowed), and its probability is
        cprob th c = prod_g prod_k (th g k) ^ (n g k c).
   The data are finitely many OBSERVED rows x (list [xs], multiplicity [m x] > 0); [cs x] lists the complete
   configurations that extend x (x together with every latent completion).  Then
        marg th x   = sum_{c in cs x} cprob th c                     probability of the observed row
        loglik th   = sum_{x in xs} m x * ln (marg th x)             observed-data log-likelihood
        resp th x c = cprob th c / marg th x                         E-step: posterior of completion c
        ecount th g k = sum_x m x * sum_{c in cs x} resp th x c * n g k c     expected count of cell (g,k)
        M-step:  th' g k = ecount th g k / sum_{k'} ecount th g k'   (groups with a positive expected total).
   Theorem [em_ascent]: loglik th <= loglik th', and every observed row still has positive probability
   under th' (so the right-hand side is a genuine log-likelihood and the step can be repeated).

   Hypotheses, exactly (nothing else is used):
     (H1) m x > 0 for the rows of xs;
     (H2) th is non-negative and every group sums to AT MOST 1 (a distribution has sum = 1; zeros allowed);
     (H3) every observed row has positive probability under th  (marg th x > 0) -- needed for ln and for
          the division in resp; it is implied by "all th g k > 0" but is much weaker;
     (H4) th' is an M-step output: normalised expected counts on every group whose expected total is
          positive, ANY non-negative values on the other groups (pgmpy: uniform; textbook: unchanged --
          those cells are used by no completion of positive posterior, they cannot influence loglik th').
   Zero cells need no convention: th' g k = 0 exactly when the expected count is 0, and then no completion
   of positive posterior uses the cell; the proof works on the support (Coq's ln 0 = 0 only ever occurs
   multiplied by a zero weight).
   NOT covered: pgmpy's floor max(cpd value, 1e-10) in _get_log_likelihood.  With an active floor the
   "parameter" the E-step sees is not a sub-distribution (a column can sum to more than 1), (H2) fails and
   ascent is false in principle; see EMInst.v for the exact side condition (floor inactive).

   Axioms: only those of the standard library's real numbers (Print Assumptions in Props.v). *)
From Coq Require Import List Reals Lra Lia.
Import ListNotations.
Local Open Scope R_scope.

(* ------------------------------------------------------------------ finite sums and products over lists *)
Fixpoint rsum {A} (f : A -> R) (l : list A) : R :=
  match l with [] => 0 | a :: l' => f a + rsum f l' end.
Fixpoint rprod {A} (f : A -> R) (l : list A) : R :=
  match l with [] => 1 | a :: l' => f a * rprod f l' end.

Lemma rsum_ext {A} (f g : A -> R) l : (forall a, In a l -> f a = g a) -> rsum f l = rsum g l.
Proof.
  induction l as [|a l IH]; intros H; cbn [rsum]; [reflexivity|].
  rewrite H by (left; reflexivity). rewrite IH; [reflexivity|]. intros b Hb. apply H. right. exact Hb.
Qed.

Lemma rprod_ext {A} (f g : A -> R) l : (forall a, In a l -> f a = g a) -> rprod f l = rprod g l.
Proof.
  induction l as [|a l IH]; intros H; cbn [rprod]; [reflexivity|].
  rewrite H by (left; reflexivity). rewrite IH; [reflexivity|]. intros b Hb. apply H. right. exact Hb.
Qed.

Lemma rsum_le {A} (f g : A -> R) l : (forall a, In a l -> f a <= g a) -> rsum f l <= rsum g l.
Proof.
  induction l as [|a l IH]; intros H; cbn [rsum]; [apply Rle_refl|].
  apply Rplus_le_compat; [apply H; left; reflexivity|]. apply IH. intros b Hb. apply H. right. exact Hb.
Qed.

Lemma rsum_const0 {A} (l : list A) : rsum (fun _ => 0) l = 0.
Proof. induction l as [|a l IH]; cbn [rsum]; [reflexivity|]. rewrite IH. apply Rplus_0_l. Qed.

Lemma rsum_zero {A} (f : A -> R) l : (forall a, In a l -> f a = 0) -> rsum f l = 0.
Proof. intros H. rewrite (rsum_ext f (fun _ => 0) l H). apply rsum_const0. Qed.

Lemma rsum_nonneg {A} (f : A -> R) l : (forall a, In a l -> 0 <= f a) -> 0 <= rsum f l.
Proof. intros H. rewrite <- (rsum_const0 l). apply rsum_le. exact H. Qed.

Lemma rsum_plus {A} (f g : A -> R) l : rsum (fun a => f a + g a) l = rsum f l + rsum g l.
Proof. induction l as [|a l IH]; cbn [rsum]; [ring|]. rewrite IH. ring. Qed.

Lemma rsum_minus {A} (f g : A -> R) l : rsum (fun a => f a - g a) l = rsum f l - rsum g l.
Proof. induction l as [|a l IH]; cbn [rsum]; [ring|]. rewrite IH. ring. Qed.

Lemma rsum_scal {A} (c : R) (f : A -> R) l : rsum (fun a => c * f a) l = c * rsum f l.
Proof. induction l as [|a l IH]; cbn [rsum]; [ring|]. rewrite IH. ring. Qed.

Lemma rsum_scal_r {A} (c : R) (f : A -> R) l : rsum (fun a => f a * c) l = rsum f l * c.
Proof. induction l as [|a l IH]; cbn [rsum]; [ring|]. rewrite IH. ring. Qed.

Lemma rsum_swap {A B} (h : A -> B -> R) la lb :
  rsum (fun a => rsum (fun b => h a b) lb) la = rsum (fun b => rsum (fun a => h a b) la) lb.
Proof.
  induction la as [|a la IH]; cbn [rsum].
  - symmetry. apply rsum_const0.
  - rewrite IH. symmetry. apply rsum_plus.
Qed.

(* sum_a w a * (sum_b h a b) = sum_b sum_a w a * h a b *)
Lemma rsum_lin2 {A B} (w : A -> R) (h : A -> B -> R) la lb :
  rsum (fun a => w a * rsum (fun b => h a b) lb) la = rsum (fun b => rsum (fun a => w a * h a b) la) lb.
Proof.
  rewrite <- rsum_swap. apply rsum_ext. intros a _. symmetry. apply rsum_scal.
Qed.

Lemma rsum_term_le {A} (f : A -> R) l a : (forall b, In b l -> 0 <= f b) -> In a l -> f a <= rsum f l.
Proof.
  induction l as [|b l IH]; intros Hnn Hin; [destruct Hin|]. cbn [rsum].
  assert (H0 : 0 <= f b) by (apply Hnn; left; reflexivity).
  assert (H1 : 0 <= rsum f l) by (apply rsum_nonneg; intros c Hc; apply Hnn; right; exact Hc).
  destruct Hin as [->|Hin].
  - lra.
  - assert (f a <= rsum f l) by (apply IH; [intros c Hc; apply Hnn; right; exact Hc|exact Hin]). lra.
Qed.

Lemma rsum_pos_intro {A} (f : A -> R) l a :
  (forall b, In b l -> 0 <= f b) -> In a l -> 0 < f a -> 0 < rsum f l.
Proof. intros Hnn Hin Hpos. eapply Rlt_le_trans; [exact Hpos|]. apply rsum_term_le; assumption. Qed.

Lemma rsum_pos_inv {A} (f : A -> R) l : 0 < rsum f l -> exists a, In a l /\ 0 < f a.
Proof.
  induction l as [|b l IH]; cbn [rsum]; intros H; [lra|].
  destruct (Rle_or_lt (f b) 0) as [Hb|Hb].
  - destruct IH as [a [Ha Hpos]]; [lra|]. exists a. split; [right; exact Ha|exact Hpos].
  - exists b. split; [left; reflexivity|exact Hb].
Qed.

Lemma rsum_zero_inv {A} (f : A -> R) l a :
  (forall b, In b l -> 0 <= f b) -> rsum f l = 0 -> In a l -> f a = 0.
Proof.
  intros Hnn H0 Hin. assert (H1 := rsum_term_le f l a Hnn Hin). assert (H2 := Hnn a Hin). lra.
Qed.

Lemma rprod_nonneg {A} (f : A -> R) l : (forall a, In a l -> 0 <= f a) -> 0 <= rprod f l.
Proof.
  induction l as [|a l IH]; intros H; cbn [rprod]; [lra|].
  apply Rmult_le_pos; [apply H; left; reflexivity|]. apply IH. intros b Hb. apply H. right. exact Hb.
Qed.

Lemma rprod_pos {A} (f : A -> R) l : (forall a, In a l -> 0 < f a) -> 0 < rprod f l.
Proof.
  induction l as [|a l IH]; intros H; cbn [rprod]; [lra|].
  apply Rmult_lt_0_compat; [apply H; left; reflexivity|]. apply IH. intros b Hb. apply H. right. exact Hb.
Qed.

Lemma rprod_zero {A} (f : A -> R) l a : In a l -> f a = 0 -> rprod f l = 0.
Proof.
  induction l as [|b l IH]; intros Hin H0; [destruct Hin|]. cbn [rprod].
  destruct Hin as [->|Hin]; [rewrite H0; ring|]. rewrite (IH Hin H0). ring.
Qed.

Lemma ln_rprod {A} (f : A -> R) l : (forall a, In a l -> 0 < f a) ->
  ln (rprod f l) = rsum (fun a => ln (f a)) l.
Proof.
  induction l as [|a l IH]; intros H; cbn [rprod rsum]; [apply ln_1|].
  assert (Hl : forall b, In b l -> 0 < f b) by (intros b Hb; apply H; right; exact Hb).
  rewrite ln_mult; [|apply H; left; reflexivity|apply rprod_pos; exact Hl].
  rewrite (IH Hl). reflexivity.
Qed.

(* ------------------------------------------------------------------ ln x <= x - 1 and Gibbs' inequality *)
Lemma ln_le_sub1 x : 0 < x -> ln x <= x - 1.
Proof.
  intros Hx. destruct (Req_dec x 1) as [->|Hne].
  - rewrite ln_1. lra.
  - assert (H : 1 + (x - 1) < exp (x - 1)) by (apply exp_ineq1; lra).
    replace (1 + (x - 1)) with x in H by ring.
    apply Rlt_le. rewrite <- (ln_exp (x - 1)). apply ln_increasing; assumption.
Qed.

Lemma ln_quot x y : 0 < x -> 0 < y -> ln (x / y) = ln x - ln y.
Proof.
  intros Hx Hy. unfold Rdiv. rewrite ln_mult; [|exact Hx|apply Rinv_0_lt_compat; exact Hy].
  rewrite ln_Rinv by exact Hy. ring.
Qed.

(* one term: p ln q - p ln p <= q - p; a zero weight p contributes 0 whatever q is *)
Lemma gibbs_term p q : 0 <= p -> 0 <= q -> (0 < p -> 0 < q) -> p * ln q - p * ln p <= q - p.
Proof.
  intros Hp Hq Hpq. destruct Hp as [Hp|<-].
  - assert (Hq' := Hpq Hp).
    assert (H : ln (q / p) <= q / p - 1) by (apply ln_le_sub1; apply Rdiv_lt_0_compat; assumption).
    rewrite ln_quot in H by assumption.
    apply (Rmult_le_compat_l p) in H; [|lra].
    replace (p * (q / p - 1)) with (q - p) in H by (field; lra). lra.
  - lra.
Qed.

(* Gibbs' inequality for finite non-negative weight vectors: if q is positive wherever p is and the total
   of q is at most the total of p, then sum p ln q <= sum p ln p.  (No normalisation needed.) *)
Lemma gibbs {A} (p q : A -> R) l :
  (forall a, In a l -> 0 <= p a) -> (forall a, In a l -> 0 <= q a) ->
  (forall a, In a l -> 0 < p a -> 0 < q a) ->
  rsum q l <= rsum p l ->
  rsum (fun a => p a * ln (q a)) l <= rsum (fun a => p a * ln (p a)) l.
Proof.
  intros Hp Hq Hpq Htot.
  assert (H : rsum (fun a => p a * ln (q a) - p a * ln (p a)) l <= rsum (fun a => q a - p a) l).
  { apply rsum_le. intros a Ha. apply gibbs_term; [apply Hp|apply Hq|apply Hpq]; exact Ha. }
  rewrite !rsum_minus in H. lra.
Qed.

(* ------------------------------------------------------------------ the abstract EM iteration *)
Section EM.
  Variables X C G K : Type.
  Variable xs : list X.             (* the distinct observed rows *)
  Variable m : X -> R.              (* their multiplicities *)
  Variable cs : X -> list C.        (* complete configurations extending an observed row *)
  Variable gs : list G.             (* parameter groups: (node, parent configuration) *)
  Variable ks : G -> list K.        (* cells of a group: the node's states *)
  Variable n : G -> K -> C -> nat.  (* how often configuration c uses cell (g,k) *)

  Definition cprob (th : G -> K -> R) (c : C) : R :=
    rprod (fun g => rprod (fun k => th g k ^ n g k c) (ks g)) gs.
  Definition marg (th : G -> K -> R) (x : X) : R := rsum (cprob th) (cs x).
  Definition loglik (th : G -> K -> R) : R := rsum (fun x => m x * ln (marg th x)) xs.
  (* E-step *)
  Definition resp (th : G -> K -> R) (x : X) (c : C) : R := cprob th c / marg th x.
  Definition ecount (th : G -> K -> R) (g : G) (k : K) : R :=
    rsum (fun x => m x * rsum (fun c => resp th x c * INR (n g k c)) (cs x)) xs.
  Definition gtotal (th : G -> K -> R) (g : G) : R := rsum (ecount th g) (ks g).

  Definition nonneg_par (th : G -> K -> R) : Prop :=
    forall g, In g gs -> forall k, In k (ks g) -> 0 <= th g k.
  (* (H2): non-negative, every group sums to at most 1 *)
  Definition sub_distr (th : G -> K -> R) : Prop :=
    nonneg_par th /\ forall g, In g gs -> rsum (th g) (ks g) <= 1.
  Definition is_distr (th : G -> K -> R) : Prop :=
    nonneg_par th /\ forall g, In g gs -> rsum (th g) (ks g) = 1.
  (* (H3) *)
  Definition observable (th : G -> K -> R) : Prop := forall x, In x xs -> 0 < marg th x.
  (* (H4): th' is an M-step output for the E-step taken at th *)
  Definition em_update (th th' : G -> K -> R) : Prop :=
    forall g, In g gs ->
      (0 < gtotal th g -> forall k, In k (ks g) -> th' g k = ecount th g k / gtotal th g) /\
      (gtotal th g = 0 -> forall k, In k (ks g) -> 0 <= th' g k).

  Lemma is_distr_sub th : is_distr th -> sub_distr th.
  Proof. intros [H1 H2]. split; [exact H1|]. intros g Hg. rewrite (H2 g Hg). apply Rle_refl. Qed.

  (* ---- complete-data probability: sign and logarithm *)
  Lemma cprob_nonneg th c : nonneg_par th -> 0 <= cprob th c.
  Proof.
    intros Hnn. unfold cprob. apply rprod_nonneg. intros g Hg. apply rprod_nonneg. intros k Hk.
    apply pow_le. apply Hnn; assumption.
  Qed.

  Definition supported (th : G -> K -> R) (c : C) : Prop :=
    forall g, In g gs -> forall k, In k (ks g) -> (0 < n g k c)%nat -> 0 < th g k.

  Lemma factor_pos th c g k : In g gs -> In k (ks g) -> supported th c -> 0 < th g k ^ n g k c.
  Proof.
    intros Hg Hk Hs. destruct (n g k c) as [|j] eqn:E; [cbn [pow]; lra|].
    apply pow_lt. apply (Hs g Hg k Hk). rewrite E. lia.
  Qed.

  Lemma cprob_pos th c : supported th c -> 0 < cprob th c.
  Proof.
    intros Hs. unfold cprob. apply rprod_pos. intros g Hg. apply rprod_pos. intros k Hk.
    apply factor_pos; assumption.
  Qed.

  Lemma cprob_pos_inv th c : nonneg_par th -> 0 < cprob th c -> supported th c.
  Proof.
    intros Hnn Hpos g Hg k Hk Hn.
    destruct (Hnn g Hg k Hk) as [H|H]; [exact H|]. exfalso.
    assert (E : cprob th c = 0).
    { unfold cprob. apply (rprod_zero _ gs g Hg). apply (rprod_zero _ (ks g) k Hk).
      rewrite <- H. apply pow_i. exact Hn. }
    lra.
  Qed.

  Lemma ln_cprob th c : supported th c ->
    ln (cprob th c) = rsum (fun g => rsum (fun k => INR (n g k c) * ln (th g k)) (ks g)) gs.
  Proof.
    intros Hs. unfold cprob.
    rewrite ln_rprod by (intros g Hg; apply rprod_pos; intros k Hk; apply factor_pos; assumption).
    apply rsum_ext. intros g Hg.
    rewrite ln_rprod by (intros k Hk; apply factor_pos; assumption).
    apply rsum_ext. intros k Hk.
    destruct (n g k c) as [|j] eqn:E.
    - cbn [pow INR]. rewrite ln_1. ring.
    - apply ln_pow. apply (Hs g Hg k Hk). rewrite E. lia.
  Qed.

  (* ---- the theorem, under its hypotheses *)
  Section Step.
    Variables th th' : G -> K -> R.
    Hypothesis Hm : forall x, In x xs -> 0 < m x.
    Hypothesis Hth : sub_distr th.
    Hypothesis Hobs : observable th.
    Hypothesis Hup : em_update th th'.

    Let Hnn : nonneg_par th := proj1 Hth.

    Lemma resp_nonneg x c : In x xs -> 0 <= resp th x c.
    Proof.
      intros Hx. unfold resp. apply Rmult_le_pos; [apply cprob_nonneg; exact Hnn|].
      apply Rlt_le. apply Rinv_0_lt_compat. apply Hobs. exact Hx.
    Qed.

    Lemma resp_pos x c : In x xs -> 0 < cprob th c -> 0 < resp th x c.
    Proof. intros Hx Hc. unfold resp. apply Rdiv_lt_0_compat; [exact Hc|apply Hobs; exact Hx]. Qed.

    Lemma resp_pos_inv x c : In x xs -> 0 < resp th x c -> 0 < cprob th c.
    Proof.
      intros Hx Hr. unfold resp in Hr. assert (Hs := Hobs x Hx).
      replace (cprob th c) with (cprob th c / marg th x * marg th x) by (field; lra).
      apply Rmult_lt_0_compat; assumption.
    Qed.

    Lemma resp_sum x : In x xs -> rsum (resp th x) (cs x) = 1.
    Proof.
      intros Hx. unfold resp, Rdiv. rewrite rsum_scal_r. fold (marg th x).
      apply Rinv_r. assert (Hs := Hobs x Hx). lra.
    Qed.

    Lemma inner_nonneg g k x : In x xs -> 0 <= rsum (fun c => resp th x c * INR (n g k c)) (cs x).
    Proof.
      intros Hx. apply rsum_nonneg. intros c _. apply Rmult_le_pos; [apply resp_nonneg; exact Hx|apply pos_INR].
    Qed.

    Lemma ecount_nonneg g k : 0 <= ecount th g k.
    Proof.
      unfold ecount. apply rsum_nonneg. intros x Hx.
      apply Rmult_le_pos; [apply Rlt_le; apply Hm; exact Hx|apply inner_nonneg; exact Hx].
    Qed.

    Lemma gtotal_nonneg g : 0 <= gtotal th g.
    Proof. unfold gtotal. apply rsum_nonneg. intros k _. apply ecount_nonneg. Qed.

    (* a cell used by a completion of positive probability has a positive expected count ... *)
    Lemma ecount_pos g k x c : In x xs -> In c (cs x) -> 0 < cprob th c -> (0 < n g k c)%nat ->
      0 < ecount th g k.
    Proof.
      intros Hx Hc Hp Hn. unfold ecount.
      apply (rsum_pos_intro _ xs x).
      - intros y Hy. apply Rmult_le_pos; [apply Rlt_le; apply Hm; exact Hy|apply inner_nonneg; exact Hy].
      - exact Hx.
      - apply Rmult_lt_0_compat; [apply Hm; exact Hx|].
        apply (rsum_pos_intro _ (cs x) c).
        + intros d _. apply Rmult_le_pos; [apply resp_nonneg; exact Hx|apply pos_INR].
        + exact Hc.
        + apply Rmult_lt_0_compat; [apply resp_pos; assumption|]. apply lt_0_INR. exact Hn.
    Qed.

    (* ... and conversely *)
    Lemma ecount_pos_inv g k : 0 < ecount th g k ->
      exists x c, In x xs /\ In c (cs x) /\ 0 < cprob th c /\ (0 < n g k c)%nat.
    Proof.
      intros H. unfold ecount in H. apply rsum_pos_inv in H. destruct H as [x [Hx H]].
      assert (H1 : 0 < rsum (fun c => resp th x c * INR (n g k c)) (cs x)).
      { assert (Hmx := Hm x Hx). assert (H0 := inner_nonneg g k x Hx).
        destruct H0 as [H0|H0]; [exact H0|]. rewrite <- H0 in H. lra. }
      apply rsum_pos_inv in H1. destruct H1 as [c [Hc H1]].
      exists x, c. split; [exact Hx|]. split; [exact Hc|].
      assert (Hr := resp_nonneg x c Hx). assert (Hi := pos_INR (n g k c)).
      split.
      - apply (resp_pos_inv x c Hx). destruct Hr as [Hr|Hr]; [exact Hr|]. rewrite <- Hr in H1. lra.
      - destruct (n g k c) as [|j]; [cbn [INR] in H1; lra|lia].
    Qed.

    Lemma th'_nonneg : nonneg_par th'.
    Proof.
      intros g Hg k Hk. destruct (Hup g Hg) as [Hpos Hzero].
      destruct (gtotal_nonneg g) as [Ht|Ht].
      - rewrite (Hpos Ht k Hk). apply Rmult_le_pos; [apply ecount_nonneg|].
        apply Rlt_le. apply Rinv_0_lt_compat. exact Ht.
      - apply Hzero; [symmetry; exact Ht|exact Hk].
    Qed.

    Lemma th'_pos_of_ecount g k : In g gs -> In k (ks g) -> 0 < ecount th g k -> 0 < th' g k.
    Proof.
      intros Hg Hk He.
      assert (Ht : 0 < gtotal th g).
      { eapply Rlt_le_trans; [exact He|]. unfold gtotal.
        apply rsum_term_le; [intros j _; apply ecount_nonneg|exact Hk]. }
      destruct (Hup g Hg) as [Hpos _]. rewrite (Hpos Ht k Hk).
      apply Rdiv_lt_0_compat; assumption.
    Qed.

    (* the support of a completion of positive probability survives the M-step *)
    Lemma supported_th' x c : In x xs -> In c (cs x) -> 0 < cprob th c -> supported th' c.
    Proof.
      intros Hx Hc Hp g Hg k Hk Hn. apply th'_pos_of_ecount; [exact Hg|exact Hk|].
      apply (ecount_pos g k x c); assumption.
    Qed.

    Lemma observable_th' : observable th'.
    Proof.
      intros x Hx. assert (Hs := Hobs x Hx). unfold marg in Hs. apply rsum_pos_inv in Hs.
      destruct Hs as [c [Hc Hp]]. unfold marg. apply (rsum_pos_intro _ (cs x) c).
      - intros d _. apply cprob_nonneg. exact th'_nonneg.
      - exact Hc.
      - apply cprob_pos. apply (supported_th' x c); assumption.
    Qed.

    (* groups of positive expected total become distributions; so th' is a distribution as soon as the
       values chosen for the zero-total groups are *)
    Lemma th'_group_sum g : In g gs -> 0 < gtotal th g -> rsum (th' g) (ks g) = 1.
    Proof.
      intros Hg Ht. destruct (Hup g Hg) as [Hpos _].
      rewrite (rsum_ext (th' g) (fun k => ecount th g k * / gtotal th g) (ks g)).
      - rewrite rsum_scal_r. fold (gtotal th g). apply Rinv_r. lra.
      - intros k Hk. apply (Hpos Ht k Hk).
    Qed.

    Lemma th'_is_distr :
      (forall g, In g gs -> gtotal th g = 0 -> rsum (th' g) (ks g) = 1) -> is_distr th'.
    Proof.
      intros Hz. split; [exact th'_nonneg|]. intros g Hg.
      destruct (gtotal_nonneg g) as [Ht|Ht]; [apply th'_group_sum; assumption|].
      apply Hz; [exact Hg|symmetry; exact Ht].
    Qed.

    (* ---- step 2: Jensen via Gibbs on the posterior over the completions of one row *)
    Lemma jensen_row x : In x xs ->
      rsum (fun c => resp th x c * ln (cprob th' c)) (cs x) - rsum (fun c => resp th x c * ln (cprob th c)) (cs x)
      <= ln (marg th' x) - ln (marg th x).
    Proof.
      intros Hx. assert (Hs := Hobs x Hx). assert (Hs' := observable_th' x Hx).
      assert (Hg := gibbs (resp th x) (fun c => cprob th' c / marg th' x) (cs x)).
      assert (Hq0 : forall c, 0 <= cprob th' c / marg th' x).
      { intros c. apply Rmult_le_pos; [apply cprob_nonneg; exact th'_nonneg|].
        apply Rlt_le. apply Rinv_0_lt_compat. exact Hs'. }
      assert (Hsupp : forall c, In c (cs x) -> 0 < resp th x c -> 0 < cprob th' c).
      { intros c Hc Hr. apply cprob_pos. apply (supported_th' x c Hx Hc).
        apply (resp_pos_inv x c Hx Hr). }
      specialize (Hg (fun c _ => resp_nonneg x c Hx) (fun c _ => Hq0 c)).
      assert (Hg' : rsum (fun c => resp th x c * ln (cprob th' c / marg th' x)) (cs x)
                    <= rsum (fun c => resp th x c * ln (resp th x c)) (cs x)).
      { apply Hg.
        - intros c Hc Hr. apply Rdiv_lt_0_compat; [apply Hsupp; assumption|exact Hs'].
        - rewrite (resp_sum x Hx). unfold Rdiv. rewrite rsum_scal_r. fold (marg th' x).
          rewrite Rinv_r by lra. apply Rle_refl. }
      (* split the logarithms of the quotients, on the support *)
      rewrite (rsum_ext _ (fun c => resp th x c * ln (cprob th' c) - resp th x c * ln (marg th' x))) in Hg'.
      2:{ intros c Hc. destruct (resp_nonneg x c Hx) as [Hr|Hr].
          - rewrite ln_quot by (try apply Hsupp; assumption). ring.
          - rewrite <- Hr. ring. }
      rewrite (rsum_ext (fun c => resp th x c * ln (resp th x c))
                        (fun c => resp th x c * ln (cprob th c) - resp th x c * ln (marg th x))) in Hg'.
      2:{ intros c Hc. destruct (resp_nonneg x c Hx) as [Hr|Hr].
          - unfold resp at 2. rewrite ln_quot by (try apply (resp_pos_inv x c Hx); assumption). ring.
          - rewrite <- Hr. ring. }
      rewrite !rsum_minus, !rsum_scal_r, (resp_sum x Hx) in Hg'. lra.
    Qed.

    (* ---- step 3: the expected complete-data log-likelihood Q(th'' | th) as a sum over cells *)
    Definition Qfun (th2 : G -> K -> R) : R :=
      rsum (fun x => m x * rsum (fun c => resp th x c * ln (cprob th2 c)) (cs x)) xs.

    Lemma Qfun_cells th2 :
      (forall x c, In x xs -> In c (cs x) -> 0 < cprob th c -> supported th2 c) ->
      Qfun th2 = rsum (fun g => rsum (fun k => ecount th g k * ln (th2 g k)) (ks g)) gs.
    Proof.
      intros Hs. unfold Qfun.
      transitivity (rsum (fun x => m x * rsum (fun g => rsum (fun k =>
                      rsum (fun c => resp th x c * (INR (n g k c) * ln (th2 g k))) (cs x)) (ks g)) gs) xs).
      { apply rsum_ext. intros x Hx. f_equal.
        transitivity (rsum (fun c => resp th x c *
                        rsum (fun g => rsum (fun k => INR (n g k c) * ln (th2 g k)) (ks g)) gs) (cs x)).
        - apply rsum_ext. intros c Hc. destruct (resp_nonneg x c Hx) as [Hr|Hr].
          + rewrite ln_cprob; [reflexivity|]. apply (Hs x c Hx Hc). apply (resp_pos_inv x c Hx Hr).
          + rewrite <- Hr. ring.
        - rewrite rsum_lin2. apply rsum_ext. intros g _. apply rsum_lin2. }
      rewrite rsum_lin2. apply rsum_ext. intros g _.
      rewrite rsum_lin2. apply rsum_ext. intros k _.
      unfold ecount. rewrite <- rsum_scal_r. apply rsum_ext. intros x _.
      rewrite Rmult_assoc. f_equal. rewrite <- rsum_scal_r. apply rsum_ext. intros c _. ring.
    Qed.

    (* the normalised expected counts maximise each group's term (Gibbs again) *)
    Lemma mstep_group g : In g gs ->
      rsum (fun k => ecount th g k * ln (th g k)) (ks g) <= rsum (fun k => ecount th g k * ln (th' g k)) (ks g).
    Proof.
      intros Hg. destruct (Hup g Hg) as [Hpos _].
      destruct (gtotal_nonneg g) as [Ht|Ht].
      - assert (E : forall k, In k (ks g) -> ecount th g k = gtotal th g * th' g k).
        { intros k Hk. rewrite (Hpos Ht k Hk). field. lra. }
        rewrite (rsum_ext _ (fun k => gtotal th g * (th' g k * ln (th g k))) (ks g))
          by (intros k Hk; rewrite (E k Hk); ring).
        rewrite (rsum_ext (fun k => ecount th g k * ln (th' g k))
                          (fun k => gtotal th g * (th' g k * ln (th' g k))) (ks g))
          by (intros k Hk; rewrite (E k Hk); ring).
        rewrite !rsum_scal. apply Rmult_le_compat_l; [lra|].
        apply gibbs.
        + intros k Hk. apply th'_nonneg; assumption.
        + intros k Hk. apply Hnn; assumption.
        + intros k Hk Hp.
          assert (He : 0 < ecount th g k) by (rewrite (E k Hk); apply Rmult_lt_0_compat; assumption).
          destruct (ecount_pos_inv g k He) as [x [c [Hx [Hc [Hpc Hn]]]]].
          apply (cprob_pos_inv th c Hnn Hpc g Hg k Hk Hn).
        + rewrite (th'_group_sum g Hg Ht). apply (proj2 Hth g Hg).
      - assert (E : forall k, In k (ks g) -> ecount th g k = 0).
        { intros k Hk. apply (rsum_zero_inv (ecount th g) (ks g) k); [intros j _; apply ecount_nonneg| |exact Hk].
          symmetry. exact Ht. }
        rewrite !(rsum_zero _ (ks g)); [apply Rle_refl| |]; intros k Hk; rewrite (E k Hk); ring.
    Qed.

    Lemma Q_ascent : Qfun th <= Qfun th'.
    Proof.
      rewrite (Qfun_cells th), (Qfun_cells th').
      - apply rsum_le. intros g Hg. apply mstep_group. exact Hg.
      - intros x c Hx Hc Hp. apply (supported_th' x c); assumption.
      - intros x c _ _ Hp. apply cprob_pos_inv; assumption.
    Qed.

    (* ---- EM ascent *)
    Theorem em_ascent : observable th' /\ loglik th <= loglik th'.
    Proof.
      split; [exact observable_th'|].
      assert (H : Qfun th' - Qfun th <= loglik th' - loglik th).
      { unfold Qfun, loglik. rewrite <- !rsum_minus. apply rsum_le. intros x Hx.
        rewrite <- !Rmult_minus_distr_l. apply Rmult_le_compat_l; [apply Rlt_le; apply Hm; exact Hx|].
        apply jensen_row. exact Hx. }
      assert (H' := Q_ascent). lra.
    Qed.
  End Step.

  (* ---- the textbook iteration as a function: zero-total groups keep their values *)
  Definition em_next (th : G -> K -> R) (g : G) (k : K) : R :=
    if Rlt_dec 0 (gtotal th g) then ecount th g k / gtotal th g else th g k.

  Lemma em_next_update th : nonneg_par th -> em_update th (em_next th).
  Proof.
    intros Hnn g Hg. split.
    - intros Ht k _. unfold em_next. destruct (Rlt_dec 0 (gtotal th g)); [reflexivity|contradiction].
    - intros Ht k Hk. unfold em_next. destruct (Rlt_dec 0 (gtotal th g)); [lra|]. apply Hnn; assumption.
  Qed.

  Fixpoint em_iter (i : nat) (th : G -> K -> R) : G -> K -> R :=
    match i with O => th | S j => em_next (em_iter j th) end.

  (* any number of iterations: every iterate is again a distribution under which the data are possible,
     and the likelihood never decreases from one iteration to the next *)
  Theorem em_iter_ascent th : (forall x, In x xs -> 0 < m x) -> is_distr th -> observable th ->
    forall i, is_distr (em_iter i th) /\ observable (em_iter i th) /\
              loglik (em_iter i th) <= loglik (em_iter (S i) th).
  Proof.
    intros Hm Hd Ho.
    assert (Hinv : forall i, is_distr (em_iter i th) /\ observable (em_iter i th)).
    { induction i as [|i [IHd IHo]]; [split; assumption|]. cbn [em_iter].
      assert (Hup := em_next_update (em_iter i th) (proj1 IHd)).
      split.
      - apply (th'_is_distr (em_iter i th) _ Hm (is_distr_sub _ IHd) IHo Hup).
        intros g Hg Ht. rewrite <- (proj2 IHd g Hg). apply rsum_ext. intros k _.
        unfold em_next. destruct (Rlt_dec 0 (gtotal (em_iter i th) g)); [lra|reflexivity].
      - apply (em_ascent (em_iter i th) _ Hm (is_distr_sub _ IHd) IHo Hup). }
    intros i. destruct (Hinv i) as [IHd IHo]. split; [exact IHd|]. split; [exact IHo|].
    cbn [em_iter]. apply (em_ascent (em_iter i th) _ Hm (is_distr_sub _ IHd) IHo).
    apply em_next_update. exact (proj1 IHd).
  Qed.
End EM.

(* ------------------------------------------------------------------ non-vacuity: a tiny instance *)
(* one latent binary variable L and one observed binary variable A with L -> A; a complete configuration is
   the pair (A, L); groups: None = P(L), Some l = P(A | L = l); data: A = true twice, A = false once *)
Definition ex_xs : list bool := [true; false].
Definition ex_m (x : bool) : R := if x then 2 else 1.
Definition ex_cs (x : bool) : list (bool * bool) := [(x, true); (x, false)].
Definition ex_gs : list (option bool) := [None; Some true; Some false].
Definition ex_ks (_ : option bool) : list bool := [true; false].
Definition ex_n (g : option bool) (k : bool) (c : bool * bool) : nat :=
  match g with
  | None => if Bool.eqb k (snd c) then 1%nat else 0%nat
  | Some l => if (Bool.eqb l (snd c) && Bool.eqb k (fst c))%bool then 1%nat else 0%nat
  end.
Definition ex_th (g : option bool) (k : bool) : R :=
  match g with
  | None => if k then 1 / 4 else 3 / 4
  | Some l => if Bool.eqb l k then 3 / 4 else 1 / 4
  end.

Example ex_tiny_hyps :
  (forall x, In x ex_xs -> 0 < ex_m x) /\ is_distr _ _ ex_gs ex_ks ex_th /\
  observable _ _ _ _ ex_xs ex_cs ex_gs ex_ks ex_n ex_th.
Proof.
  split; [|split].
  - intros x [<-|[<-|[]]]; cbn [ex_m]; lra.
  - split.
    + intros g _ k _. destruct g as [[|]|], k; cbn [ex_th Bool.eqb]; lra.
    + intros g _. destruct g as [[|]|]; cbn [ex_ks rsum ex_th Bool.eqb]; lra.
  - intros x _. destruct x;
      cbn [marg cprob ex_cs ex_gs ex_ks ex_n ex_th rsum rprod pow fst snd Bool.eqb andb]; lra.
Qed.

(* so the theorem applies to it: every EM iterate has a likelihood at least that of its predecessor *)
Example ex_tiny_ascent : forall i,
  loglik _ _ _ _ ex_xs ex_m ex_cs ex_gs ex_ks ex_n (em_iter _ _ _ _ ex_xs ex_m ex_cs ex_gs ex_ks ex_n i ex_th)
  <= loglik _ _ _ _ ex_xs ex_m ex_cs ex_gs ex_ks ex_n (em_iter _ _ _ _ ex_xs ex_m ex_cs ex_gs ex_ks ex_n (S i) ex_th).
Proof.
  intros i. destruct ex_tiny_hyps as [H1 [H2 H3]].
  apply (em_iter_ascent _ _ _ _ ex_xs ex_m ex_cs ex_gs ex_ks ex_n ex_th H1 H2 H3 i).
Qed.
