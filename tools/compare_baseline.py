#!/venv/bin/python
"""compare a junit xml with BASELINE.json stable_pass: every stable test must pass"""
import json, sys, xml.etree.ElementTree as ET
base = json.load(open('/root/.vp/BASELINE.json'))
stable = set(base['stable_pass'])
t = ET.parse(sys.argv[1])
st = {}
for tc in t.iter('testcase'):
    name = tc.get('classname') + '::' + tc.get('name')
    bad = any(c.tag in ('failure', 'error', 'skipped') for c in tc)
    st[name] = not bad
missing = [s for s in stable if s not in st]
failed = [s for s in stable if s in st and not st[s]]
print('stable', len(stable), 'passed', sum(1 for s in stable if st.get(s)), 'failed', len(failed), 'missing', len(missing))
for s in failed[:20]: print('FAILED', s)
for s in missing[:20]: print('MISSING', s)
sys.exit(1 if failed or missing else 0)
