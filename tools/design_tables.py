#!/venv/bin/python
"""Development tool: the generated tables of DESIGN.md.

    tools/design_tables.py            print the findings table and the seeded-changes table
    tools/design_tables.py --refresh  rewrite the blocks of DESIGN.md between
                                      <!-- GEN:name --> and <!-- /GEN:name -->
                                      (names: theorem_counts, findings, seeded)
Sources: known_findings.json, seeded/*/meta.json, coq/Cxx/Props.v."""
import contextlib
import glob
import io
import json
import os
import re
import sys

V = os.path.dirname(os.path.dirname(os.path.abspath(__file__)))


def findings_table():
    kf = json.load(open(os.path.join(V, "known_findings.json")))["findings"]
    print("### 6a. Findings as of the last run (source of truth: `known_findings.json`)\n")
    print("%d defects were repaired by `fix:` commits in /repo (each listed as `fixed: property=… <commit> …`; "
          "the check follows the repaired code and reports the defect again if the commit is reverted); %d are open.\n" % (
              sum(1 for f in kf if f["status"] == "fixed"), sum(1 for f in kf if f["status"] == "open")))
    print("| property | key | status | what |\n|---|---|---|---|")
    for f in sorted(kf, key=lambda f: (f["property"], f["status"], f["key"])):
        what = f.get("what") or f.get("line", "").split(" ", 3)[-1]
        print("| %s | %s | %s | %s |" % (f["property"], f["key"],
                                         f["status"] + (" " + f["commit"] if f.get("commit") else ""),
                                         what.replace("|", "\\|")[:400]))


def seeded_table():
    print("### 0.2 Seeded changes: which check catches which change\n")
    print("Independent sub-agents, given only the property text and a scratch worktree, wrote three rounds of two\n"
          "property-breaking changes per property (A,B / C,D / E,F; each passes the existing tests and comes with a\n"
          "demonstration).  `first` = caught by the check as it was when the change arrived; `now` = caught by the\n"
          "committed check, confirmed by applying the patch to /repo itself and undoing it (`tools/seed_inrepo.py`;\n"
          "`check` names the property whose check reports it when that is not the seed's own).  Every miss led to a\n"
          "strengthening of the generators, never of a tolerance.\n")
    rows = []
    for d in sorted(glob.glob(os.path.join(V, "seeded", "*"))):
        m = json.load(open(os.path.join(d, "meta.json")))
        v = m.get("verification", {})
        r = m.get("in_repo_confirmation", {})
        first = m.get("first_eval_caught", v.get("caught"))
        kinds = ", ".join(sorted({l.split("replay=replays/")[-1].split("-", 1)[-1].rsplit("-", 1)[0]
                                  for l in r.get("violation_lines", [])}))
        now = ("yes" if r.get("caught") else ("patch no longer applies" if r.get("applies") is False else "NO")) if r else "?"
        rows.append((os.path.basename(d), m, first, now, r.get("check", ""), kinds))
    n = len(rows)
    print("Totals: %d changes; caught on first evaluation %d; caught now %d.\n" % (
        n, sum(1 for r in rows if r[2]), sum(1 for r in rows if r[3] == "yes")))
    per = {}
    for name, m, first, now, chk, kinds in rows:
        r = {"A": 1, "B": 1, "C": 2, "D": 2, "E": 3, "F": 3, "G": 4, "H": 4, "I": 5, "J": 5}.get(name[-1], 0)
        t = per.setdefault(r, [0, 0, 0, 0])
        t[0] += 1
        t[1] += bool(first)
        t[2] += now == "yes"
        t[3] += now == "patch no longer applies"
    print("| round | changes | caught on first evaluation | caught now (in /repo) | patch no longer applies |\n|---|---|---|---|---|")
    for r in sorted(per):
        print("| %d | %d | %d | %d | %d |" % (r, per[r][0], per[r][1], per[r][2], per[r][3]))
    print("\nNot caught now and still applicable: " + (", ".join(
        "%s (%s)" % (name, (m.get("in_repo_note") or "see meta.json")[:160]) for name, m, first, now, chk, kinds in rows
        if now == "NO") or "none") + ".\n")
    print("| seed | change (summary) | needs | first | now | check | caught as |\n|---|---|---|---|---|---|---|")
    for name, m, first, now, chk, kinds in rows:
        print("| %s | %s | %s | %s | %s | %s | %s |" % (
            name, (m.get("summary") or "").replace("|", "\\|").replace("\n", " ")[:230],
            (m.get("needs_to_manifest") or "").replace("|", "\\|").replace("\n", " ")[:200],
            "yes" if first else "NO", now, chk if chk and chk != name.split("-")[0] else "", kinds[:120]))


def theorem_counts():
    rows = ["| id | theorems in Props.v |", "|---|---|"]
    total = 0
    for i in range(1, 21):
        pid = "C%02d" % i
        src = open(os.path.join(V, "coq", pid, "Props.v")).read()
        n = len(re.findall(r"^Theorem ", src, flags=re.M))
        total += n
        rows.append("| %s | %d |" % (pid, n))
    rows.append("| total | %d |" % total)
    print("\n".join(rows))


def capture(fn):
    buf = io.StringIO()
    with contextlib.redirect_stdout(buf):
        fn()
    return buf.getvalue().strip()


def refresh_design():
    path = os.path.join(V, "DESIGN.md")
    text = open(path).read()
    blocks = {"theorem_counts": capture(theorem_counts), "findings": capture(findings_table),
              "seeded": capture(seeded_table)}
    for name, body in blocks.items():
        pat = re.compile(r"(<!-- GEN:%s -->).*?(<!-- /GEN:%s -->)" % (name, name), re.S)
        if not pat.search(text):
            print("marker missing:", name)
            continue
        text = pat.sub(lambda m: m.group(1) + "\n" + body + "\n" + m.group(2), text)
    open(path, "w").write(text)


if __name__ == "__main__":
    if "--refresh" in sys.argv:
        refresh_design()
    else:
        findings_table()
        print()
        seeded_table()
