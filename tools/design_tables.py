#!/venv/bin/python
"""prints the markdown tables for DESIGN.md: findings (from known_findings.json) and seeded changes (seeded/*/meta.json)"""
import json, glob, os, sys
V = os.path.dirname(os.path.dirname(os.path.abspath(__file__)))
kf = json.load(open(os.path.join(V, "known_findings.json")))["findings"]
print("### 6a. Findings as of the last run (source of truth: `known_findings.json`)\n")
print("%d defects were repaired by `fix:` commits in /repo (each listed as `fixed: property=… <commit> …`; the check follows the repaired code and reports the defect again if the commit is reverted); %d are open.\n" % (
    sum(1 for f in kf if f["status"] == "fixed"), sum(1 for f in kf if f["status"] == "open")))
print("| property | key | status | what |\n|---|---|---|---|")
for f in sorted(kf, key=lambda f: (f["property"], f["status"], f["key"])):
    what = f.get("what") or f.get("line", "").split(" ", 3)[-1]
    print("| %s | %s | %s | %s |" % (f["property"], f["key"], f["status"] + (" " + f["commit"] if f.get("commit") else ""), what.replace("|", "\\|")[:400]))
print("\n### 0.2 Seeded changes: which check catches which change\n")
print("Independent sub-agents, given only the property text and a scratch worktree, wrote two rounds of two\nproperty-breaking changes per property (each passes the existing tests and comes with a demonstration).  "
      "`first` = caught by the check as it was when the change arrived; `now` = caught by the committed check, "
      "confirmed by applying the patch to /repo itself and undoing it (`tools/seed_inrepo.py`).  Every miss led to a "
      "strengthening of the generators (see the `strengthened` column).\n")
print("| seed | change (summary) | needs | first | now | caught as |\n|---|---|---|---|---|---|")
for d in sorted(glob.glob(os.path.join(V, "seeded", "*"))):
    m = json.load(open(os.path.join(d, "meta.json")))
    v = m.get("verification", {})
    r = m.get("in_repo_confirmation", {})
    first = m.get("first_eval_caught", v.get("caught"))
    kinds = ", ".join(sorted({l.split("replay=replays/")[-1].split("-", 1)[-1].rsplit("-", 1)[0] for l in r.get("violation_lines", [])}))
    print("| %s | %s | %s | %s | %s | %s |" % (os.path.basename(d), (m.get("summary") or "").replace("|", "\\|").replace("\n", " ")[:230],
          (m.get("needs_to_manifest") or "").replace("|", "\\|").replace("\n", " ")[:200], "yes" if first else "NO",
          ("yes" if r.get("caught") else ("patch no longer applies" if r.get("applies") is False else "NO")) if r else "?", kinds[:120]))
