#!/venv/bin/python
"""Development tool: confirm every kept seeded change against /repo itself:
   git -C /repo apply <patch>; ./check Cxx (quick); git -C /repo checkout -- .   (never committed)."""
import glob, json, os, subprocess, sys, time
V = os.path.dirname(os.path.dirname(os.path.abspath(__file__)))
only = sys.argv[1:]
for d in sorted(glob.glob(os.path.join(V, "seeded", "*"))):
    name = os.path.basename(d)
    if only and name not in only and name.split("-")[0] not in only:
        continue
    meta = json.load(open(os.path.join(d, "meta.json")))
    prop = meta.get("caught_by") or name.split("-")[0]   # a change may be caught by another property's check
    st = subprocess.run("git -C /repo status --porcelain --untracked-files=no", shell=True, capture_output=True, text=True).stdout.strip()
    if st:
        print("REFUSING: /repo has uncommitted changes:", st); sys.exit(2)
    ap = subprocess.run("git -C /repo apply --whitespace=nowarn %s/patch.diff" % d, shell=True, capture_output=True, text=True)
    if ap.returncode != 0:
        ap = subprocess.run("git -C /repo apply --3way --whitespace=nowarn %s/patch.diff" % d, shell=True, capture_output=True, text=True)
    res = {"at": time.strftime("%Y-%m-%d %H:%M:%S"), "repo_head": subprocess.run("git -C /repo log --format=%h -1", shell=True, capture_output=True, text=True).stdout.strip()}
    try:
        if ap.returncode != 0:
            res["applies"] = False
            res["note"] = ap.stderr[-300:]
        else:
            res["applies"] = True
            t0 = time.time()
            p = subprocess.run("./check %s --tier quick" % prop, shell=True, cwd=V, capture_output=True, text=True, timeout=3000)
            res["check_rc"] = p.returncode
            res["caught"] = p.returncode == 1 and ("VIOLATION property=%s" % prop) in p.stdout
            res["violation_lines"] = [l for l in p.stdout.split("\n") if l.startswith("VIOLATION")][:4]
            res["wall_s"] = round(time.time() - t0, 1)
    finally:
        subprocess.run("git -C /repo reset -q --hard HEAD", shell=True)
    res["check"] = prop
    meta["in_repo_confirmation"] = res
    json.dump(meta, open(os.path.join(d, "meta.json"), "w"), indent=1)
    print(name, res.get("applies"), res.get("caught"), res.get("wall_s"), flush=True)
