#!/venv/bin/python
"""assemble MANIFEST.json from harness/meta/Cxx.json (one small file per claimed property)"""
import json, os, glob
V = os.path.dirname(os.path.dirname(os.path.abspath(__file__)))
props = [json.loads(l)["id"] for l in open(os.path.join(V, "properties.jsonl"))]
checks, na = [], []
ready = set(open(os.path.join(V, 'harness', 'meta', 'READY')).read().split())
for pid in props:
    mp = os.path.join(V, "harness", "meta", pid + ".json")
    if os.path.exists(mp) and pid in ready:
        m = json.load(open(mp))
        checks.append({
            "property_id": pid,
            "quick_cmd": "./check %s --tier quick" % pid,
            "thorough_cmd": "./check %s --tier thorough" % pid,
            "evidence_file": "/verif/evidence/%s.json" % pid,
            "replay_cmd_template": "./check %s --replay {path}" % pid,
            "engine": "coq-proof+correspondence",
            "level_claimed": {"category": m.get("category", "proof"), "text": m["text"], "design_ref": m.get("design_ref", "DESIGN.md section 5, " + pid)},
            "level_note": m["note"],
            "technique": m["technique"],
        })
    else:
        na.append({"property_id": pid, "reason": "no check registered yet: the Coq model, theorems and correspondence harness for this property are not built (see DESIGN.md section 5 for the plan); not a claim that the technique cannot apply"})
man = {
    "version": 1,
    "setup_cmd": "./check --setup",
    "hooks": {"guard": "PGMPY_VERIF", "enable": "no source hooks: pgmpy is pure Python and is observed from outside by the harness (PYTHONPATH=/repo); the harness exports PGMPY_VERIF=1 for uniformity",
              "baseline_off_cmd": "cd /repo && /venv/bin/python -m pytest -ra -q -p no:cacheprovider --timeout=900 --continue-on-collection-errors",
              "source_commits": [], "add_only": True},
    "engines": [{"name": "coq-proof+correspondence", "path": "/verif/check",
                 "serves_properties": [c["property_id"] for c in checks],
                 "kind_free_text": "Coq 8.16.1 theorems over a hand-written executable Gallina model (coq/Cxx/{Model,Spec,Proofs,Props}.v); the model is extracted (ExtrOcamlBasic only) and run against /repo's working tree on generated inputs on every invocation (harness/cxx.py)"}],
    "checks": checks,
    "notes": "See DESIGN.md. known_findings.json lists repaired (fixed:) and open findings.",
    "not_applicable": na,
}
json.dump(man, open(os.path.join(V, "MANIFEST.json"), "w"), indent=1)
print("MANIFEST.json: %d checks, %d not claimed" % (len(checks), len(na)))
