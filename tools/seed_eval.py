#!/venv/bin/python
"""Development tool (not a registered command): evaluate a seeded property-breaking change.

    tools/seed_eval.py C08 A [--in-repo] [--tests]

Takes /tmp/seed_C08/OUT/A/{patch.diff,demo.py,meta.json} (written by an independent sub-agent that saw
only the property text), and
  1. confirms the demonstration: passes on the unchanged tree, fails with the patch;
  2. optionally (--tests) re-runs the pytest command(s) recorded by the sub-agent in a scratch worktree
     with the patch applied;
  3. runs ./check Cxx (quick) against the patched tree: with --in-repo by `git -C /repo apply` + undo
     straight afterwards, otherwise through VERIF_REPO pointing at the scratch worktree;
  4. stores everything under /verif/seeded/Cxx-A/ (patch.diff, demo.py, meta.json with the verdict).
"""
import json
import os
import shutil
import subprocess
import sys
import time

V = os.path.dirname(os.path.dirname(os.path.abspath(__file__)))


def sh(cmd, cwd=None, env=None, timeout=3000):
    p = subprocess.run(cmd, shell=True, cwd=cwd, env=env, stdout=subprocess.PIPE, stderr=subprocess.STDOUT,
                       text=True, timeout=timeout)
    return p.returncode, p.stdout


def demo(tree, demo_path):
    env = dict(os.environ, PYTHONPATH=tree, PYTHONDONTWRITEBYTECODE="1", PYTHONHASHSEED="0")
    try:
        rc, out = sh("/venv/bin/python -W ignore %s" % demo_path, cwd="/var/tmp", env=env, timeout=900)
    except subprocess.TimeoutExpired:
        return 124, "TIMEOUT"
    return rc, out[-1500:]


def main():
    prop, which = sys.argv[1], sys.argv[2]
    in_repo = "--in-repo" in sys.argv
    root = "seed"
    for a in sys.argv:
        if a.startswith("--root="):
            root = a.split("=", 1)[1]
    src = "/tmp/%s_%s/OUT/%s" % (root, prop, which)
    wt = "/tmp/%s_%s" % (root, prop)
    dst = os.path.join(V, "seeded", "%s-%s" % (prop, which))
    os.makedirs(dst, exist_ok=True)
    for f in ("patch.diff", "demo.py", "meta.json"):
        if os.path.exists(os.path.join(src, f)):
            shutil.copy(os.path.join(src, f), os.path.join(dst, f))
    meta = {}
    try:
        meta = json.load(open(os.path.join(dst, "meta.json")))
    except Exception:
        pass
    patch = os.path.join(dst, "patch.diff")
    res = {"evaluated_at": time.strftime("%Y-%m-%d %H:%M:%S")}
    # clean worktree
    sh("git checkout -- pgmpy", cwd=wt)
    rc0, out0 = demo(wt, os.path.join(dst, "demo.py"))
    rca, outa = sh("git apply --whitespace=nowarn %s" % patch, cwd=wt)
    if rca != 0:
        res["error"] = "patch does not apply to the scratch worktree: " + outa[-400:]
        print(res["error"])
    rc1, out1 = demo(wt, os.path.join(dst, "demo.py"))
    res["demo_unchanged_rc"] = rc0
    res["demo_patched_rc"] = rc1
    res["demo_patched_tail"] = out1[-600:]
    res["demo_confirmed"] = (rc0 == 0 and rc1 != 0)
    if "--tests" in sys.argv and meta.get("tests_run"):
        cmds = meta["tests_run"] if isinstance(meta["tests_run"], list) else [meta["tests_run"]]
        outs = []
        for c in cmds:
            if "pytest" not in c:
                continue
            c = c.replace("<worktree>", wt)
            rc, out = sh("cd %s && %s" % (wt, c.split("&&")[-1].strip()), timeout=3000)
            outs.append({"cmd": c, "rc": rc, "tail": out.strip().split("\n")[-1][-300:]})
        res["tests_rerun"] = outs
        sh("git clean -fdq -e OUT -e PROPERTY.txt", cwd=wt)
    # run the check
    env = dict(os.environ)
    if in_repo:
        sh("git checkout -- pgmpy", cwd=wt)
        rca, outa = sh("git -C /repo apply --whitespace=nowarn %s" % patch)
        if rca != 0:
            res["error"] = "patch does not apply to /repo: " + outa[-400:]
        tree = "/repo"
    else:
        env["VERIF_REPO"] = wt
        tree = wt
    t0 = time.time()
    try:
        rc, out = sh("./check %s --tier quick" % prop, cwd=V, env=env, timeout=2400)
    finally:
        if in_repo:
            sh("git -C /repo checkout -- .")
        sh("git checkout -- pgmpy", cwd=wt)
    res["check_tree"] = tree
    res["check_rc"] = rc
    res["check_wall_s"] = round(time.time() - t0, 1)
    res["check_tail"] = "\n".join(out.strip().split("\n")[-6:])[-1500:]
    res["caught"] = (rc == 1 and "VIOLATION property=%s" % prop in out)
    meta["verification"] = res
    meta.setdefault("property", prop)
    json.dump(meta, open(os.path.join(dst, "meta.json"), "w"), indent=1)
    print("%s-%s: demo_confirmed=%s caught=%s (check rc %s, %.0fs)" % (prop, which, res["demo_confirmed"], res["caught"], rc, res["check_wall_s"]))
    print(res["check_tail"][-600:])


if __name__ == "__main__":
    main()
