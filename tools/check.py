#!/venv/bin/python
"""Single entry point.
   ./check --setup                      build every Coq file (full .vo), static gate, all drivers
   ./check C08 [--tier quick|thorough]  decide one property: proof obligations + correspondence
   ./check C08 --replay replays/x.json  re-run one recorded case against /repo
Exit 0 = property held on everything explored; exit 1 + "VIOLATION property=<id> replay=<path>".
"""
import argparse
import glob
import importlib
import json
import os
import queue
import re
import shutil
import subprocess
import sys
import threading
import time

VERIF = os.path.dirname(os.path.dirname(os.path.abspath(__file__)))
sys.path.insert(0, VERIF)
COQ = os.path.join(VERIF, "coq")
BUILD = os.path.join(VERIF, "build")
NCPU = int(os.environ.get("VERIF_JOBS", "16"))

FORBIDDEN = re.compile(
    r"\b(Admitted|admit|Axiom|Axioms|Parameter|Parameters|Conjecture|Conjectures|bypass_check)\b"
    r"|Unset\s+Guard|Unset\s+Positivity|Unset\s+Universe|Admit\s+Obligations|type-in-type|impredicative-set"
    r"|native_compute"
)
# axioms of the standard library (and libraries shipped with it) that a theorem may depend on; each
# one that appears is reported in the evidence.  Nothing in /verif/coq declares an axiom (static gate).
ALLOWED_AXIOM_PREFIXES = (
    "ClassicalDedekindReals.", "FunctionalExtensionality.", "Classical_Prop.", "ProofIrrelevance.",
    "JMeq.", "Eqdep.", "PropExtensionality.", "ClassicalEpsilon.", "ChoiceFacts.", "Rdefinitions.",
    "Raxioms.", "ClassicalUniqueChoice.", "Coq.", "Stdlib.",
    "functional_extensionality_dep", "classic", "proof_irrelevance", "JMeq_eq", "eq_rect_eq",
    "sig_forall_dec", "sig_not_dec", "propositional_extensionality", "constructive_indefinite_description",
)


def sh(cmd, timeout=3600, cwd=None, env=None):
    t0 = time.time()
    try:
        p = subprocess.run(cmd, shell=True, cwd=cwd, env=env, timeout=timeout,
                           stdout=subprocess.PIPE, stderr=subprocess.STDOUT, text=True)
        return p.returncode, p.stdout, time.time() - t0
    except subprocess.TimeoutExpired as e:
        return 124, (e.stdout or "") + "\nTIMEOUT", time.time() - t0


def strip_comments(src):
    out, depth, i = [], 0, 0
    while i < len(src):
        if src.startswith("(*", i):
            depth += 1
            i += 2
        elif src.startswith("*)", i) and depth > 0:
            depth -= 1
            i += 2
        else:
            if depth == 0:
                out.append(src[i])
            elif src[i] == "\n":
                out.append("\n")
            i += 1
    return "".join(out)


def v_files():
    fs = []
    for root, _, names in os.walk(COQ):
        for n in names:
            if n.endswith(".v"):
                fs.append(os.path.relpath(os.path.join(root, n), COQ))
    return sorted(fs)


def static_gate(files=None):
    """no Admitted/admit/Axiom/Parameter/..., no Variable/Hypothesis outside a Section"""
    problems = []
    for f in files or v_files():
        src = strip_comments(open(os.path.join(COQ, f)).read())
        depth = 0
        for ln, line in enumerate(src.split("\n"), 1):
            m = FORBIDDEN.search(line)
            if m:
                problems.append("%s:%d: forbidden token %r" % (f, ln, m.group(0)))
            if re.match(r"\s*(Section|Module\s+Type)\s+\w+", line):
                depth += 1
            elif re.match(r"\s*End\s+\w+\s*\.", line) and depth > 0:
                depth -= 1
            if depth == 0 and re.match(r"\s*(Variable|Variables|Hypothesis|Hypotheses|Context)\b", line):
                problems.append("%s:%d: Variable/Hypothesis outside a Section" % (f, ln))
    return problems


def dep_closure(prop):
    """.v files the property's Props.v / Run.v depend on (transitively), by their PV imports"""
    allf = set(v_files())
    todo = [f for f in ("%s/Props.v" % prop, "%s/Run.v" % prop) if f in allf]
    seen = set()
    while todo:
        f = todo.pop()
        if f in seen:
            continue
        seen.add(f)
        src = strip_comments(open(os.path.join(COQ, f)).read())
        for m in re.finditer(r"Require\s+(?:Import\s+|Export\s+)?(.*?)\.(?=\s|$)", src, re.S):
            for tok in m.group(1).split():
                if tok.startswith("PV."):
                    tok = tok[3:]
                cand = tok.replace(".", "/") + ".v"
                if cand in allf and cand not in seen:
                    todo.append(cand)
    return sorted(seen)


def gen_makefile(tag="all"):
    """one Makefile per property tag, so that concurrent checks of different properties never rewrite
    each other's Makefile; every Makefile knows all .v files (dependencies across directories)"""
    files = v_files()
    proj = "-R . PV\n" + "\n".join(files) + "\n"
    pth = os.path.join(COQ, "_CoqProject." + tag)
    mk = "Makefile." + tag
    old = open(pth).read() if os.path.exists(pth) else ""
    if old != proj or not os.path.exists(os.path.join(COQ, mk)):
        open(pth, "w").write(proj)
        rc, out, _ = sh("coq_makefile -f _CoqProject.%s -o %s" % (tag, mk), cwd=COQ, timeout=120)
        if rc != 0:
            raise RuntimeError("coq_makefile failed:\n" + out)
    if tag == "all":
        open(os.path.join(COQ, "_CoqProject"), "w").write(proj)
    return mk


def make_targets(targets, timeout=3000, tag="all"):
    mk = gen_makefile(tag)
    cmd = "timeout %d make -f %s -j%d %s" % (timeout, mk, NCPU, " ".join(targets))
    rc, out, wall = sh(cmd, cwd=COQ, timeout=timeout + 30)
    return rc, out, wall, "cd coq && " + cmd


def run_entries(prop):
    p = os.path.join(COQ, prop, "Run.v")
    if not os.path.exists(p):
        return []
    src = strip_comments(open(p).read())
    return re.findall(r"^\s*Definition\s+(run_\w+)", src, re.M)


def build_driver(prop):
    """extract coq/<prop>/Run.v (ExtrOcamlBasic only, no Extract Constant) and link the generic driver"""
    d = os.path.join(BUILD, prop.lower())
    os.makedirs(d, exist_ok=True)
    entries = run_entries(prop)
    if not entries:
        return True, "no Run.v entries", ""
    runvo = os.path.join(COQ, prop, "Run.vo")
    drv = os.path.join(d, "driver")
    main_src = os.path.join(VERIF, "ocaml", "driver_main.ml")
    if (os.path.exists(drv) and os.path.getmtime(drv) > os.path.getmtime(runvo)
            and os.path.getmtime(drv) > os.path.getmtime(main_src)):
        return True, "up to date", ""
    open(os.path.join(d, "Extract.v"), "w").write(
        "From Coq Require Import ExtrOcamlBasic.\nFrom PV Require Import %s.Run.\n"
        "Extraction Language OCaml.\nExtraction \"model.ml\" %s.\n" % (prop, " ".join(entries)))
    open(os.path.join(d, "entries.ml"), "w").write(
        "let table = [%s]\n" % "; ".join('("%s", Model.%s)' % (e[4:], e) for e in entries))
    shutil.copy(main_src, os.path.join(d, "driver_main.ml"))
    cmd = ("coqc -R %s PV Extract.v && ocamlfind ocamlopt -w -a model.mli model.ml entries.ml "
           "driver_main.ml -o driver" % COQ)
    rc, out, _ = sh("timeout 600 sh -c '%s'" % cmd, cwd=d, timeout=650)
    return rc == 0, out, cmd


def parse_props(prop):
    p = os.path.join(COQ, prop, "Props.v")
    src = strip_comments(open(p).read())
    thms = re.findall(r"^\s*(?:Theorem|Corollary|Lemma)\s+(\w+)", src, re.M)
    printed = re.findall(r"Print\s+Assumptions\s+(\w+)\s*\.", src)
    return thms, printed


def parse_assumptions(out):
    """-> list of (closed: bool, axioms: [names]) in order of the Print Assumptions commands"""
    blocks = []
    cur = None
    for line in out.split("\n"):
        if line.startswith("Closed under the global context"):
            if cur is not None:
                blocks.append(cur)
                cur = None
            blocks.append([])
        elif line.startswith("Axioms:"):
            if cur is not None:
                blocks.append(cur)
            cur = []
        elif cur is not None:
            if line and not line[0].isspace():
                name = line.split(":")[0].strip().split()[0] if line.strip() else ""
                if name and not name.startswith("File") and not name.startswith("Warning"):
                    cur.append(name)
    if cur is not None:
        blocks.append(cur)
    return blocks


def proof_step(prop):
    """build Props.vo and everything it needs; re-run coqc on Props.v to read Print Assumptions"""
    res = {"obligations": 0, "discharged": 0, "theorems": [], "axioms": {}, "failures": [],
           "checker_cmd": "", "wall_s": 0.0}
    t0 = time.time()
    targets = ["%s/Props.vo" % prop]
    if os.path.exists(os.path.join(COQ, prop, "Run.v")):
        targets.append("%s/Run.vo" % prop)
    files = dep_closure(prop)
    gate = static_gate(files)
    thms, printed = parse_props(prop)
    res["obligations"] = len(thms)
    res["theorems"] = thms
    if gate:
        res["failures"] += ["static gate: " + g for g in gate]
    missing = [t for t in thms if t not in printed]
    if missing:
        res["failures"].append("theorems without Print Assumptions: %s" % missing)
    rc, out, wall, cmd = make_targets(targets, tag=prop)
    res["checker_cmd"] = cmd
    if rc != 0:
        tail = "\n".join(out.strip().split("\n")[-25:])
        m = re.findall(r'File "\./([^"]+)", line (\d+)', out)
        res["failures"].append("make failed%s:\n%s" % ((" in %s line %s" % m[-1]) if m else "", tail))
        # Run.vo may still be buildable on its own (models carry no proofs)
        if len(targets) > 1:
            make_targets([targets[1]], tag=prop)
        res["wall_s"] = time.time() - t0
        return res
    cmd2 = "timeout 900 coqc -R . PV %s/Props.v" % prop
    rc, out, _ = sh(cmd2, cwd=COQ, timeout=930)
    res["checker_cmd"] += " ; " + cmd2 + "   (Coq 8.16.1; Print Assumptions under every theorem)"
    if rc != 0:
        res["failures"].append("coqc Props.v failed:\n" + out[-2000:])
        res["wall_s"] = time.time() - t0
        return res
    blocks = parse_assumptions(out)
    if len(blocks) != len(printed):
        res["failures"].append("expected %d Print Assumptions blocks, got %d" % (len(printed), len(blocks)))
    for name, axs in zip(printed, blocks):
        bad_ax = [a for a in axs if not a.startswith(ALLOWED_AXIOM_PREFIXES)]
        res["axioms"][name] = axs
        if bad_ax:
            res["failures"].append("theorem %s depends on non-library axioms %s" % (name, bad_ax))
        elif name in thms:
            res["discharged"] += 1
    if gate or missing:
        res["discharged"] = 0
    res["wall_s"] = time.time() - t0
    return res


def coqchk_step(prop, res):
    """thorough tier: re-check the compiled theorems (and all they depend on) with the independent checker"""
    mods = ["PV.%s.Props" % prop] + (["PV.%s.Run" % prop] if os.path.exists(os.path.join(COQ, prop, "Run.vo")) else [])
    cmd = "timeout 7200 coqchk -o -silent -R . PV " + " ".join(mods)
    t0 = time.time()
    rc, out, _ = sh(cmd, cwd=COQ, timeout=7300)
    res["checker_cmd"] += " ; " + cmd
    summary = out[out.find("CONTEXT SUMMARY"):] if "CONTEXT SUMMARY" in out else ""
    if rc != 0 or not summary:
        res["failures"].append("coqchk failed (rc %s):\n%s" % (rc, out[-1500:]))
        return
    sect = {}
    cur = None
    for line in summary.split("\n"):
        m = re.match(r"\* ([^:]+):\s*(.*)", line.strip())
        if m:
            cur = m.group(1).strip()
            sect[cur] = [m.group(2).strip()] if m.group(2).strip() else []
        elif cur and line.strip() and not line.startswith("="):
            sect[cur].append(line.strip())
    axioms = [a for a in sect.get("Axioms", []) if a != "<none>"]
    res["coqchk"] = {"wall_s": round(time.time() - t0, 1), "axioms": axioms,
                     "summary": {k: v for k, v in sect.items() if k != "Axioms"}}
    bad = [a for a in axioms if not (a.split(" ")[0].startswith(ALLOWED_AXIOM_PREFIXES))]
    if bad:
        res["failures"].append("coqchk: non-library axioms in the checked context: %s" % bad)
    for k in ("Constants/Inductives relying on type-in-type", "Constants/Inductives relying on unsafe (co)fixpoints",
              "Inductives whose positivity is assumed"):
        if [x for x in sect.get(k, []) if x != "<none>"]:
            res["failures"].append("coqchk: %s: %s" % (k, sect[k]))
    if res["failures"]:
        res["discharged"] = 0


# ------------------------------------------------------------------ worker pool
class Pool:
    def __init__(self, modname, hashseeds, nproc):
        from harness import common
        self.common = common
        self.procs = []
        per = max(1, nproc // max(1, len(hashseeds)))
        for hs in hashseeds:
            for _ in range(per):
                p = subprocess.Popen([common.PY, "-W", "ignore", "-m", "harness.worker", modname],
                                     cwd="/var/tmp", env=common.impl_env(hs), stdin=subprocess.PIPE,
                                     stdout=subprocess.PIPE, stderr=subprocess.PIPE, text=True, bufsize=1)
                self.procs.append((hs, p))
        self.errlogs = {}
        self.ready = set()
        for hs, p in self.procs:
            threading.Thread(target=self._drain, args=(p,), daemon=True).start()

    def _drain(self, p):
        buf = []
        for line in p.stderr:
            buf.append(line)
            if len(buf) > 200:
                del buf[:100]
        self.errlogs[p.pid] = "".join(buf[-60:])

    def run(self, cases, deadline=None):
        """cases: list of dicts; a case with 'hashseed' goes to a worker of that seed, others round-robin.
        returns list of (case, outcome)"""
        by_seed = {}
        for hs, p in self.procs:
            by_seed.setdefault(str(hs), []).append(p)
        queues = {}
        anyq = queue.Queue()
        for hs in by_seed:
            queues[hs] = queue.Queue()
        seeds = sorted(by_seed)
        for i, c in enumerate(cases):
            hs = str(c["hashseed"]) if "hashseed" in c and str(c["hashseed"]) in by_seed else seeds[i % len(seeds)]
            queues[hs].put((i, c))
        results = [None] * len(cases)
        lock = threading.Lock()
        skipped = [0]

        def serve(hs, p):
            if p.pid not in self.ready:
                if not p.stdout.readline():
                    return
                self.ready.add(p.pid)
            q = queues[hs]
            while True:
                try:
                    i, c = q.get_nowait()
                except queue.Empty:
                    return
                if deadline and time.time() > deadline:
                    with lock:
                        skipped[0] += 1
                    continue
                try:
                    p.stdin.write(json.dumps(c) + "\n")
                    p.stdin.flush()
                    line = p.stdout.readline()
                except Exception:
                    line = ""
                if not line:
                    time.sleep(0.3)
                    results[i] = (c, self.common.bad("worker-died", {"stderr": self.errlogs.get(p.pid, "")[-2000:]}))
                    return
                results[i] = (c, json.loads(line))

        ths = []
        for hs, p in self.procs:
            t = threading.Thread(target=serve, args=(str(hs), p), daemon=True)
            t.start()
            ths.append(t)
        for t in ths:
            t.join()
        return [r for r in results if r is not None], skipped[0]

    def close(self):
        for hs, p in self.procs:
            try:
                p.stdin.close()
            except Exception:
                pass
        for hs, p in self.procs:
            try:
                p.wait(timeout=10)
            except Exception:
                p.kill()


def sx_coq(text):
    """wire text (hex ints, parentheses) -> Coq term of type sx"""
    toks = text.replace("(", " ( ").replace(")", " ) ").split()
    pos = [0]

    def val():
        t = toks[pos[0]]
        pos[0] += 1
        if t == "(":
            items = []
            while toks[pos[0]] != ")":
                items.append(val())
            pos[0] += 1
            return "(SL [" + "; ".join(items) + "])"
        n = int(t, 16)
        return "(SZ (%d)%%Z)" % n

    return val()


def xcheck(prop, nmax=40, timeout=180):
    """Extraction cross-check: re-evaluate a sample of this run's driver requests inside Coq with
    vm_compute on the same Run.v entry points and compare with the extracted driver's replies."""
    d = os.path.join(BUILD, prop.lower(), "xcheck")
    rows, seen = [], set()
    for f in sorted(glob.glob(os.path.join(d, "*.jsonl"))):
        for line in open(f):
            try:
                r = json.loads(line)
            except ValueError:
                continue
            k = (r["entry"], r["req"])
            if k not in seen:
                seen.add(k)
                rows.append(r)
    rows.sort(key=lambda r: len(r["req"]) + len(r["reply"]))
    per_entry = {}
    chosen = []
    quota = max(4, nmax // max(1, len(set(x["entry"] for x in rows))))
    for r in rows:
        if per_entry.get(r["entry"], 0) < quota:
            per_entry[r["entry"]] = per_entry.get(r["entry"], 0) + 1
            chosen.append(r)
        if len(chosen) >= nmax:
            break
    if not chosen:
        return {"compared": 0, "note": "no driver requests sampled"}
    body = ["From Coq Require Import ZArith List Bool.", "Import ListNotations.",
            "From PV Require Import Base.Sx %s.Run." % prop,
            "Definition results : list bool := ["]
    body.append(";\n".join("  sx_eqb (run_%s %s) %s" % (r["entry"], sx_coq(r["req"]), sx_coq(r["reply"]))
                           for r in chosen))
    body.append("].")
    body.append("Eval vm_compute in results.")
    vf = os.path.join(BUILD, prop.lower(), "XCheck.v")
    open(vf, "w").write("\n".join(body) + "\n")
    rc, out, wall = sh("timeout %d coqc -R %s PV XCheck.v" % (timeout, COQ), cwd=os.path.dirname(vf), timeout=timeout + 20)
    if rc == 124:
        return {"compared": 0, "note": "vm_compute cross-check timed out after %ds (not a failure)" % timeout}
    if rc != 0:
        return {"compared": 0, "note": "cross-check file did not compile: " + out[-300:]}
    flat = re.sub(r"\s+", " ", out)
    m = re.search(r"= \[(.*?)\]\s*: list bool", flat)
    if not m:
        return {"compared": 0, "note": "could not parse coqc output: " + flat[-200:]}
    vals = [v.strip() for v in m.group(1).split(";")]
    mism = [chosen[i] for i, v in enumerate(vals) if v != "true" and i < len(chosen)]
    return {"compared": len(vals), "agree": sum(1 for v in vals if v == "true"), "mismatches": mism,
            "entries": sorted(per_entry), "wall_s": round(wall, 1)}


def load_findings():
    p = os.path.join(VERIF, "known_findings.json")
    if not os.path.exists(p):
        return []
    return json.load(open(p)).get("findings", [])


def write_replay(prop, tag, payload):
    os.makedirs(os.path.join(VERIF, "replays"), exist_ok=True)
    from harness import common
    name = "%s-%s-%s.json" % (prop, tag, common.canon_key(payload))
    path = os.path.join(VERIF, "replays", name)
    json.dump(payload, open(path, "w"), indent=1, default=str)
    return os.path.relpath(path, VERIF)


def shrink_case(mod, pool, case, outcome, budget_s=40):
    """greedy shrinking with the module's shrink(); keeps the same kind of disagreement"""
    if not hasattr(mod, "shrink"):
        return case, outcome
    t0 = time.time()
    cur, cur_out = case, outcome
    improved = True
    while improved and time.time() - t0 < budget_s:
        improved = False
        cands = []
        for cand in mod.shrink(cur):
            cand = dict(cand)
            if "hashseed" in cur:
                cand["hashseed"] = cur["hashseed"]
            cands.append(cand)
            if len(cands) >= 64:
                break
        if not cands:
            break
        res, _ = pool.run(cands, deadline=t0 + budget_s)
        for c, o in res:
            if not o["ok"] and o.get("kind") == cur_out.get("kind") and o.get("finding") == cur_out.get("finding"):
                cur, cur_out = c, o
                improved = True
                break
    return cur, cur_out


def run_property(prop, tier, seed, replay=None):
    from harness import common
    t0 = time.time()
    modname = prop.lower()
    lines = []
    violations = []  # (replay_path, suffix)

    proof = proof_step(prop)
    if tier == "thorough" and not proof["failures"] and not replay:
        coqchk_step(prop, proof)
    okb, bout, bcmd = build_driver(prop)
    if not okb:
        proof["failures"].append("extraction/driver build failed:\n" + bout[-1500:])

    mod = importlib.import_module("harness." + modname)
    hashseeds = mod.HASHSEEDS[tier] if isinstance(mod.HASHSEEDS, dict) else mod.HASHSEEDS
    outcomes, skipped = [], 0
    n_corpus = 0
    pool = None
    if okb:
        if replay:
            payload = json.load(open(replay))
            cases = [payload["case"]] if "case" in payload else []
            if "hashseed" in payload and cases:
                cases[0]["hashseed"] = payload["hashseed"]
                if str(payload["hashseed"]) not in [str(h) for h in hashseeds]:
                    hashseeds = [payload["hashseed"]]
        else:
            corpus = []
            for f in sorted(glob.glob(os.path.join(VERIF, "harness", "corpus", prop, "*.json"))):
                corpus.append(json.load(open(f)))
            n_corpus = len(corpus)
            gen = list(mod.cases(tier, seed))
            if not getattr(mod, "ORDERED", False):
                # a wall-clock budget cut (loaded machine) must thin every stream, not drop the last one
                import random as _random
                _random.Random(seed * 1000003 + 17).shuffle(gen)
            cases = corpus + gen
        budget = getattr(mod, "BUDGET_S", {"quick": 150, "thorough": 1500})[tier]
        budget = max(budget, {"quick": 600, "thorough": 3600}[tier])
        shutil.rmtree(os.path.join(BUILD, prop.lower(), "xcheck"), ignore_errors=True)
        pool = Pool(modname, hashseeds, 1 if replay else NCPU)
        outcomes, skipped = pool.run(cases, deadline=time.time() + budget)

    findings = [f for f in load_findings() if f.get("property") == prop]
    open_keys = {f["key"]: f for f in findings if f.get("status") == "open"}
    known_hit = {}
    new_bad = []
    for c, o in outcomes:
        if o["ok"]:
            continue
        if o.get("finding") and o["finding"] in open_keys:
            known_hit.setdefault(o["finding"], []).append((c, o))
        else:
            new_bad.append((c, o))
    for k, hits in sorted(known_hit.items()):
        lines.append("KNOWN-FINDING: property=%s %s (%d cases this run, e.g. %s)" % (
            prop, open_keys[k]["what"], len(hits), json.dumps(hits[0][0], default=str)[:200]))
    # one replay per kind of new disagreement (shrunk)
    seen_kinds = set()
    for c, o in new_bad:
        kk = (o.get("kind"), o.get("finding"))
        if kk in seen_kinds:
            continue
        seen_kinds.add(kk)
        if pool is not None and not replay:
            c, o = shrink_case(mod, pool, c, o)
        path = write_replay(prop, re.sub(r"\W+", "_", str(o.get("kind")))[:30], {
            "property": prop, "kind": o.get("kind"), "hashseed": o.get("hashseed"), "case": c,
            "detail": o.get("detail"), "how": "./check %s --replay <this file>" % prop})
        violations.append((path, ""))
    if pool is not None:
        pool.close()
    xc = xcheck(prop) if okb and not replay else {"compared": 0, "note": "not run"}
    if xc.get("mismatches"):
        path = write_replay(prop, "extraction", {
            "property": prop, "kind": "extraction-disagrees-with-vm_compute", "mismatches": xc["mismatches"][:5],
            "note": "the extracted OCaml model and Coq's vm_compute disagree on these requests"})
        violations.append((path, ""))

    if proof["failures"]:
        path = write_replay(prop, "proof", {
            "property": prop, "kind": "proof-obligation-broken", "failures": proof["failures"],
            "theorems": proof["theorems"],
            "note": "the Coq development for this property no longer checks; "
                    "failing-input search result: %s" % ("see the other replay files" if violations else "none found")})
        if not violations:
            violations.append((path, " no-failing-input-found"))
        else:
            lines.append("NOTE: proof obligations also broken, see %s" % path)

    # ---------------- evidence
    tags = {}
    keys = set()
    samples = []
    for c, o in outcomes:
        for t in o.get("tags", []):
            tags[t] = tags.get(t, 0) + 1
        if o.get("nontrivial"):
            keys.add(o.get("key") or common.canon_key(c))
        if len(samples) < 4 and o.get("nontrivial"):
            samples.append({"case": c, "outcome": {k: o.get(k) for k in ("ok", "kind", "note", "hashseed")}})
    per_seed = {}
    for c, o in outcomes:
        per_seed[str(o.get("hashseed"))] = per_seed.get(str(o.get("hashseed")), 0) + 1
    level = getattr(mod, "LEVEL", "proof")
    ev = {
        "property_id": prop, "tier": tier, "seed": seed, "level": level,
        "coverage": {
            "obligations": proof["obligations"], "discharged": proof["discharged"],
            "checker_cmd": proof["checker_cmd"],
            "trusted_base": list(getattr(mod, "TRUSTED_BASE", [])) + [
                "Coq 8.16.1 kernel (coqc; vm_compute where a theorem says so; no native_compute)",
                "axioms per theorem (Print Assumptions): " + json.dumps(
                    {k: (v or "closed under the global context") for k, v in proof["axioms"].items()}),
                "coqchk -o (independent re-check of Props.vo/Run.vo and all their dependencies, thorough tier): " + json.dumps(
                    proof.get("coqchk", "not run in this tier")),
                "extraction: ExtrOcamlBasic only, no Extract Constant; OCaml 4.13.1; ocaml/driver_main.ml; a sample of this run's driver requests is re-evaluated inside Coq (vm_compute) and must give the same replies (coverage.extraction_cross_check)",
                "hand-written Gallina model tied to /repo by this run's correspondence cases",
            ],
            "theorems": proof["theorems"],
            "proof_failures": proof["failures"],
            "evaluations": len(outcomes), "distinct_nontrivial": len(keys),
            "rule": getattr(mod, "RULE", ""),
            "samples": samples or [{"note": "no correspondence case ran"}],
            "histogram": dict(sorted(tags.items())),
            "hashseeds": per_seed, "corpus_cases": n_corpus, "skipped_for_budget": skipped,
            "exhaustive": bool(getattr(mod, "EXHAUSTIVE", {}).get(tier, False)) and skipped == 0,
            "known_findings_hit": {k: len(v) for k, v in known_hit.items()},
            "extraction_cross_check": {k: v for k, v in xc.items() if k != "mismatches"},
        },
        "assumptions": list(getattr(mod, "ASSUMPTIONS", [])),
        "wall_s": round(time.time() - t0, 2),
        "violations": len(violations),
    }
    if not replay:
        os.makedirs(os.path.join(VERIF, "evidence"), exist_ok=True)
        json.dump(ev, open(os.path.join(VERIF, "evidence", prop + ".json"), "w"), indent=1, default=str)

    for l in lines:
        print(l)
    print("%s tier=%s seed=%d: theorems %d/%d, cases %d (distinct non-trivial %d, skipped %d), "
          "known findings %d, violations %d, %.1fs" % (
              prop, tier, seed, proof["discharged"], proof["obligations"], len(outcomes), len(keys),
              skipped, len(known_hit), len(violations), time.time() - t0))
    if replay:
        for c, o in outcomes:
            print("replay outcome:", json.dumps(o, default=str)[:3000])
    for path, suffix in violations:
        print("VIOLATION property=%s replay=%s%s" % (prop, path, suffix))
    return 1 if violations else 0


def setup():
    t0 = time.time()
    gate = static_gate()
    if gate:
        print("static gate failed:\n" + "\n".join(gate))
        return 1
    gen_makefile()
    rc, out, wall, cmd = make_targets([], timeout=3400)
    if rc != 0:
        print(out[-4000:])
        print("setup: make failed")
        return 1
    props = sorted(d for d in os.listdir(COQ) if re.match(r"C\d\d$", d))
    failed = []
    for p in props:
        okb, bout, _ = build_driver(p)
        if not okb:
            failed.append(p)
            print("driver build failed for %s:\n%s" % (p, bout[-1500:]))
    print("setup done in %.0fs: %d .v files, drivers for %s" % (time.time() - t0, len(v_files()), props))
    return 1 if failed else 0


def main():
    import faulthandler, signal
    faulthandler.register(signal.SIGUSR1, all_threads=True)
    ap = argparse.ArgumentParser()
    ap.add_argument("prop", nargs="?")
    ap.add_argument("--setup", action="store_true")
    ap.add_argument("--tier", default=os.environ.get("VERIF_TIER") or "quick")
    ap.add_argument("--replay")
    a = ap.parse_args()
    os.chdir(VERIF)
    if a.setup:
        sys.exit(setup())
    if not a.prop:
        ap.error("property id required")
    seed = int(os.environ.get("VERIF_SEED") or 0)
    tier = a.tier if a.tier in ("quick", "thorough") else "quick"
    sys.exit(run_property(a.prop.upper(), tier, seed, a.replay))


if __name__ == "__main__":
    main()
